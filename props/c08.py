"""C08 — malformed or hostile input cannot hang, crash or corrupt the simulator.
Theorems: coq/Properties/C08.v (only acknowledged writes change tags; incomplete frames are never processed; inner lengths
cannot escape their limit; the reference decoder is strict; no-progress detection bounds a sub-machine cycle).
Tie / observation: hostile byte streams - random bytes and structure-aware mutations (bit flips, insertions, deletions,
truncations, inconsistent length / count / offset fields at every nesting level) of valid sessions - are written to the real
enip_srv_tcp + logix.process under a wall-clock guard.  Each run must return in time, end with a reply or a closed connection,
leave no per-connection state behind, and leave the tags exactly as the well-formed complete write requests in the stream
(decided by the extracted reference decoder, Model.Framing + Model.Codec) leave them; a second session must then be served.
A few hostile streams also go to a real TCP listener."""
import os, signal, socket, struct, subprocess, sys, time
from vlib import core
from props import c01, c02, c06, codec_common as K, enip_common as E, logix_common as L

ADDR = ('10.8.8.8', 40800)
WRITES = (0x4D, 0x53, 0x10)


class Hang(BaseException):
    pass


_armed = [False]


def _alarm(*a):
    if _armed[0]:                  # the timer repeats: an alarm swallowed somewhere is followed by another
        raise Hang()


def mutate(rng, frames):
    """-> (kind, bytes)"""
    stream = bytearray(b''.join(frames))
    n = len(stream)
    starts = [0]
    for f in frames[:-1]:
        starts.append(starts[-1] + len(f))
    k = rng.random()
    if k < 0.08:
        # a bundle whose LAST member is a write cut somewhere inside its typed data, all enclosing lengths fixed up: the frame
        # and the bundle table are complete, one member is not
        nel = rng.choice([2, 3, 4])
        wr = rng.choice([('writef', ('sym', 'T', 0), 196, nel, 0, [('i', 0x1111 * (j + 1)) for j in range(nel)]),
                         ('write', ('sym', 'S', 0), 195, min(nel, 3), [('i', 0x111 * (j + 1)) for j in range(min(nel, 3))])])
        f = E.build_unconnected(L.py_req(('multi', [('read', ('sym', 'S', None), 1), wr])), ctx=b'cutmembr')
        size = 4 if wr[0] == 'writef' else 2
        datalen = size * len(wr[-1])
        cut = len(f) - rng.randrange(1, datalen)
        g = bytearray(f[:cut]); g[2:4] = struct.pack('<H', cut - 24); g[24 + 14:24 + 16] = struct.pack('<H', cut - 40)
        return 'cut-member@%d' % (len(f) - cut), bytes(frames[0] + bytes(g) + b''.join(frames[1:]))
    if k < 0.16:
        i = rng.randrange(n); stream[i] ^= 1 << rng.randrange(8)
        return 'bitflip@%d' % i, bytes(stream)
    if k < 0.26:
        i = rng.randrange(n + 1); ins = bytes(rng.getrandbits(8) for _ in range(rng.choice([1, 1, 2, 4])))
        return 'insert@%d' % i, bytes(stream[:i] + ins + stream[i:])
    if k < 0.36:
        i = rng.randrange(n); m = rng.choice([1, 1, 2, 4])
        return 'delete@%d+%d' % (i, m), bytes(stream[:i] + stream[i + m:])
    if k < 0.46:
        i = rng.randrange(1, n)
        return 'truncate@%d' % i, bytes(stream[:i])
    if k < 0.76:
        # an inconsistent length / count / offset field: a 16-bit (or 8-bit) field of some frame set to a nearby or extreme value
        fi = rng.randrange(len(frames)); f = frames[fi]; s = starts[fi]
        cands = [2]                                      # encapsulation length
        if len(f) > 40 and f[0] == 0x6F:
            cands += [24 + 6, 24 + 10, 24 + 14]        # CPF count, item 0 length, item 1 length
            body = 24 + 16
            if f[body:body + 6] == b'\x52\x02\x20\x06\x24\x01':
                cands += [body + 8]                      # Unconnected Send embedded request size
                body += 10
            cands += [body + 1]                          # request path size (1 byte)
            if body + 3 < len(f) and f[body + 2] == 0x91 and rng.random() < 0.5:
                # the length byte of a symbolic segment set to 0 (or off by one): the name's bytes become strays inside the path
                old8 = f[body + 3]
                new8 = rng.choice([0, 0, old8 - 1, old8 + 1]) & 0xFF
                stream[s + body + 3] = new8
                return 'symlen@%d:%d->%d' % (s + body + 3, old8, new8), bytes(stream)
            psz = f[body + 1] * 2 if body + 1 < len(f) else 0
            after = body + 2 + psz
            cands += [after, after + 2, after + 4, after + 6]   # type / elements / offset, or bundle count / first offsets
        off = rng.choice(cands)
        if off + 2 > len(f):
            off = 2
        old = f[off] | (f[off + 1] << 8)
        if off == body + 1 if len(f) > 40 and f[0] == 0x6F else False:
            new = rng.choice([0, (f[off] + rng.choice([-1, 1, 2, 100])) & 0xFF])
            stream[s + off] = new
            return 'field8@%d:%d->%d' % (s + off, f[off], new), bytes(stream)
        new = rng.choice([0, 1, old - 1, old + 1, old + 2, old * 2, 0xFFFF, 0x8000, old ^ 0x100]) & 0xFFFF
        stream[s + off] = new & 0xFF; stream[s + off + 1] = new >> 8
        return 'field16@%d:%d->%d' % (s + off, old, new), bytes(stream)
    if k < 0.84:
        # truncate the payload of one frame and fix the outer length up, so the frame is complete but its contents are cut
        fi = rng.randrange(len(frames)); f = frames[fi]
        if len(f) > 26:
            cut = rng.randrange(24, len(f) - 1)
            g = bytearray(f[:cut]); g[2:4] = struct.pack('<H', cut - 24)
            if f[0] == 0x6F and cut > 40:
                g[24 + 14:24 + 16] = struct.pack('<H', cut - 40)       # item 1 length follows too
            return 'cut-frame%d@%d' % (fi, cut), b''.join(frames[:fi]) + bytes(g) + b''.join(frames[fi + 1:])
        return 'noop', bytes(stream)
    if k < 0.92:
        m = rng.choice([1, 7, 24, 30, 100, 600])
        return 'random%d' % m, bytes(rng.getrandbits(8) for _ in range(m))
    # a valid prefix followed by garbage
    i = rng.choice(starts[1:] or [0])
    return 'garbage-after@%d' % i, bytes(stream[:i]) + bytes(rng.getrandbits(8) for _ in range(rng.choice([5, 24, 60])))


def run_stream(stream, guard=4.0):
    """fresh simulator; the stream as one block then end-of-stream -> dict"""
    from cpppo.server.enip import logix, device, main
    device.lookup_reset(); logix.setup_reset()
    im = L.Impl(488, c06.TAGS)
    signal.signal(signal.SIGALRM, _alarm)
    res = dict(hang=False, bad_exc=None)
    try:
        t0 = time.time()
        _armed[0] = True
        signal.setitimer(signal.ITIMER_REAL, guard, 1.0)
        try:
            calls, replies, err, closed = c02.run_session([stream] if stream else [], ADDR)
        except Hang:
            _armed[0] = False
            res['hang'] = True
            calls, replies, err, closed = [], [], 'HANG', False
        except BaseException as e:                       # not an Exception: would take more than this connection down
            res['bad_exc'] = type(e).__name__
            calls, replies, err, closed = [], [], type(e).__name__, False
        finally:
            _armed[0] = False
            signal.setitimer(signal.ITIMER_REAL, 0)
        res.update(seconds=time.time() - t0, replies=replies, err=err, closed=closed, processed=len(calls))
        key = '%s_%d' % (ADDR[0].replace('.', '_'), ADDR[1])
        res['stale'] = key in main.connections
        main.connections.pop(key, None)
        res['image'] = im.image()
        res['shape'] = [1 if a.scalar else len(a.value) for a in im.attrs]
        # a second session from the same peer must be served
        _armed[0] = True
        signal.setitimer(signal.ITIMER_REAL, guard, 1.0)
        try:
            rb_calls, rb_replies, rb_err, _ = c02.run_session(readback_frames(), ADDR)
            res['second_ok'] = rb_err is None and len(rb_replies) == 3
        except Hang:
            _armed[0] = False
            res['second_ok'] = False
        finally:
            _armed[0] = False
            signal.setitimer(signal.ITIMER_REAL, 0)
        main.connections.pop(key, None)
    finally:
        im.close()
    return res


def lenient_only(canon, f):
    """canon = cpppo's re-rendering of what it parsed from f (same length).  The differences are harmless leniency iff every differing
    field is either re-rendered as zero (a pad / reserved byte that was ignored) or a length field that DECLARED MORE than its enclosing
    structure holds (the enclosing limit still bounded the parse).  A field that declared less - bytes left over and swallowed by
    something else - or any other reinterpretation is not."""
    idx = [i for i, (a, b) in enumerate(zip(canon, f)) if a != b]
    runs = []
    for i in idx:
        if runs and i == runs[-1][-1] + 1:
            runs[-1].append(i)
        else:
            runs.append([i])
    for r in runs:
        c = int.from_bytes(bytes(canon[r[0]:r[-1] + 1]), 'little'); o = int.from_bytes(bytes(f[r[0]:r[-1] + 1]), 'little')
        if not (c == 0 or o > c):
            return False
    return True


def crafted_streams():
    """write requests whose path carries a ZERO length / size field followed by the bytes it should have covered: malformed, must
    not be executed (a zero limit is a limit)"""
    out = []
    reg = c02.register_frame()
    for wr in (('writef', ('sym', 'T', 0), 196, 2, 0, [('i', 0x1111), ('i', 0x2222)]), ('write', ('sym', 'S', 0), 195, 2, [('i', 0x111), ('i', 0x222)]),
               ('writef', ('sym', 'T', None), 196, 1, 0, [('i', 0x3333)]), ('writef', ('sym', 'TA', None), 195, 2, 0, [('i', 0x444), ('i', 0x555)]),
               ('write', ('sym', 'TA', 1), 195, 1, [('i', 0x666)])):
        for wrap in (False, True):
            f = bytearray(E.build_unconnected(L.py_req(wr), ctx=b'zerofld0', wrap=wrap))
            body = 24 + 16 + (10 if wrap else 0)
            if f[body + 2] != 0x91:
                continue
            g = bytearray(f); g[body + 3] = 0                      # symbolic segment of length 0, its name left behind as stray bytes
            out.append(('symlen0', reg + bytes(g)))
            g = bytearray(f); g[body + 1] = 0                      # path of size 0, its segments left behind
            out.append(('pathsize0', reg + bytes(g)))
            g = bytearray(f); g[body + 1] = 1                      # path cut after the segment header
            out.append(('pathsize1', reg + bytes(g)))
    # a SendRRData whose FIRST item is not the empty null address item (a null item that claims 4 bytes, a sockaddr-info item, an
    # unknown type), followed by a perfectly good write: ill-formed, must not be executed
    for wr in (('writef', ('sym', 'TA', None), 195, 2, 0, [('i', 0x1111), ('i', 0x1111)]), ('write', ('sym', 'T', 0), 196, 1, [('i', 0x2222)])):
        f = E.build_unconnected(L.py_req(wr), ctx=b'cpfitem0', wrap=True)
        pay = f[24:]
        rest = pay[12:]                                  # from item 1 on (type, length, data)
        for tid, content in ((0x0000, b'\x00\x00\x00\x00'), (0x8000, bytes(16)), (0x1234, b'ab')):
            newpay = pay[:8] + struct.pack('<HH', tid, len(content)) + content + rest
            g = f[:2] + struct.pack('<H', len(newpay)) + f[4:24] + newpay
            out.append(('item0-%04x' % tid, reg + g))
    # a frame whose LAST byte never arrives (end of stream one byte short), the request being one that would still parse without it
    # (one-byte elements, fragmented so that fewer elements than the total are a legal fragment)
    for wr in (('writef', ('sym', 'S', 0), 194, 3, 0, [('i', 17), ('i', 34), ('i', 51)]), ('writef', ('sym', 'T', 1), 194, 3, 0, [('i', 1), ('i', 2), ('i', 3)]),
               ('write', ('sym', 'B', None), 194, 1, [('i', 99)]), ('set', ('num', 0x99, 1, 2, None), [9, 0, 8, 0, 7, 0])):
        for wrap in (False, True):
            f = E.build_unconnected(L.py_req(wr), ctx=b'1short00', wrap=wrap)
            out.append(('one-byte-short', reg + f[:-1]))
    # bundles nested in bundles, every level with an offset table that names the inner bundle several times, alternating with empty
    # (end-before-begin) regions: each level adds ~20 bytes; the work must not multiply per level
    inner = bytes([0x4C, 0x02, 0x20, 0x02, 0x24, 0x01, 0x01, 0x00])
    for depth in range(1, 15):
        nrep = 2 if depth % 3 else 3
        n = 2 * nrep
        a, z = 2 + 2 * n, 2 + 2 * n + len(inner)
        table = struct.pack('<H', n) + b''.join(struct.pack('<HH', a, z) for _ in range(nrep))
        inner = bytes([0x0A, 0x02, 0x20, 0x02, 0x24, 0x01]) + table + inner
        if depth in (3, 8, 11, 14):
            out.append(('nested-bundle-depth', reg + E.build_unconnected(inner, ctx=b'nestnest')))
    return out


def run_udp(dgrams, guard=6.0):
    """the real enip_srv_udp on a scripted datagram socket: [(bytes, peer address)] -> per datagram the list of
    (reply bytes, destination) sent while it was the datagram being processed; None = guard expired"""
    from cpppo import dotdict
    from cpppo.server.enip import logix, device, main
    from cpppo.server import network
    device.lookup_reset(); logix.setup_reset()
    im = L.Impl(488, c06.TAGS)
    q = list(dgrams)
    cur = [-1]
    out = [[] for _ in dgrams]
    srv = dotdict(); srv.control = dotdict(latency=0.0, done=False, disable=False)

    class Conn:
        def sendto(self, b, a):
            if 0 <= cur[0] < len(out):
                out[cur[0]].append((bytes(b), a))

    def fake_recvfrom(conn, timeout=None):
        cur[0] += 1
        if not q:
            srv.control.done = True
            return b'', ('0.0.0.0', 9)
        return q.pop(0)
    saved = network.recvfrom
    network.recvfrom = fake_recvfrom
    signal.signal(signal.SIGALRM, _alarm)
    _armed[0] = True
    signal.setitimer(signal.ITIMER_REAL, guard, 1.0)
    try:
        for _ in range(len(dgrams) + 3):                 # the server loop swallows every exception, the guard's too
            if srv.control.done:
                break
            try:
                main.enip_srv_udp(Conn(), 'c08udp', logix.process, server=srv)
            except Hang:
                return None
        shape = [1 if a.scalar else len(a.value) for a in im.attrs]
        return out if srv.control.done else None, shape
    finally:
        _armed[0] = False
        signal.setitimer(signal.ITIMER_REAL, 0)
        network.recvfrom = saved
        for k in {str(k).split('.')[0] for k in list(main.connections) if str(k).startswith(('10_9_', '0_0_0_0_9'))}:
            main.connections.pop(k, None)
        im.close()


def udp_check(ctx, bad):
    """UDP entry point: well-formed List* / read datagrams of several peers interleaved with hostile datagrams of other peers
    (trailing bytes beyond 24+length, truncations, bit flips, random bytes).  Every well-formed datagram must be answered by
    exactly the reply it gets when it is the only datagram the simulator ever sees, sent to its own peer; nothing is ever
    sent to a peer other than the sender of the datagram being processed."""
    rng = ctx.rng
    good = [hdr for hdr in (c06.hdr(0x63, b'', 0, b'udp-id00'), c06.hdr(0x04, b'', 0, b'udp-svc0'), c06.hdr(0x64, b'', 0, b'udp-if00'))]
    good += [E.build_unconnected(L.py_req(('read', ('sym', 'S', None), 3)), ctx=b'udp-rdS0', session=0, wrap=True),
             E.build_unconnected(L.py_req(('readf', ('sym', 'T', None), 4, 0)), ctx=b'udp-rdT0', session=0)]
    solo = {}
    for g in good:
        r = run_udp([(g, ('10.9.0.1', 1000))])
        if r is None or r[0] is None:
            raise core.HarnessError('UDP harness: a single well-formed datagram was not processed')
        solo[g] = [b for b, _ in r[0][0]]
    good = [g for g in good if len(solo[g]) == 1 and solo[g][0][8:12] == bytes(4)]
    if len(good) < 4:
        raise core.HarnessError('UDP harness: the well-formed datagrams are not all answered with status 0')
    n = 0
    noob = E.build_unconnected(L.py_req(('get', ('num', 0x77, 1, 1, None))), ctx=b'udp-noob', session=0)
    for rnd in range(121 if ctx.thorough else 26):
        dg, want = [], []
        if rnd == 0:
            # scripted, run with every seed: a peer's well-formed datagrams before and after its own unroutable and malformed ones
            p1, p2 = ('10.9.0.1', 1000), ('10.9.0.2', 1001)
            mark = lambda g, j: g[:19] + bytes([48 + j]) + g[20:]
            dg = [(mark(good[0], 0), p1), (noob, p1), (mark(good[1], 2), p1), (good[2][:11], p2), (mark(good[3], 4), p2), (noob, p2), (mark(good[0], 6), p2), (mark(good[2], 7), p1)]
            want = [True, False, True, False, True, False, True, True]
        for j in range(rng.randrange(3, 9) if rnd else 0):
            g = rng.choice(good)
            k = rng.random()
            # hostile datagrams come from other peers and from the very peers that send the well-formed ones (a datagram is its own
            # session: one answered with a non-zero encapsulation status ends nothing)
            peer = ('10.9.0.%d' % (rng.randrange(1, 3) if k < 0.5 or j % 2 else rng.randrange(3, 6)), 1000 + rng.randrange(3))
            if k < 0.5:
                dg.append((g[:19] + bytes([48 + j]) + g[20:], peer)); want.append(True)       # distinguishable sender context
            elif k < 0.58:
                # well-formed but unroutable (an object that does not exist): answered with a non-zero encapsulation status
                dg.append((noob, peer)); want.append(False)
            elif k < 0.65:
                dg.append((g + bytes(rng.getrandbits(8) for _ in range(rng.choice([1, 2, 12, 24, 30]))), peer)); want.append(False)
            elif k < 0.75:
                dg.append((g + rng.choice(good)[:rng.choice([1, 23, 24])], peer)); want.append(False)
            elif k < 0.85:
                dg.append((g[:rng.randrange(0, len(g))], peer)); want.append(False)
            elif k < 0.93:
                b = bytearray(g); b[rng.randrange(len(b))] ^= 1 << rng.randrange(8); dg.append((bytes(b), peer)); want.append(False)
            else:
                dg.append((bytes(rng.getrandbits(8) for _ in range(rng.randrange(1, 60))), peer)); want.append(False)
        n += 1
        r = run_udp(dg)
        w = dict(udp_datagrams=[(b.hex(), a) for b, a in dg])
        if r is None or r[0] is None:
            bad(w, 'UDP: processing of %d datagrams did not finish within the guard' % len(dg)); continue
        out, shape = r
        if shape != [t['n'] for t in c06.TAGS]:
            bad(dict(w, tag_lengths=shape), 'UDP: the tag store is corrupted'); continue
        for i, ((b, peer), wf) in enumerate(zip(dg, want)):
            for rb, dest in out[i]:
                if dest != peer:
                    bad(dict(w, at=i, sent_to=dest), 'UDP: a reply was sent to a peer other than the sender of the datagram being processed'); break
            if wf:
                g0 = b[:19] + b'0' + b[20:]
                exp = [x[:19] + b[19:20] + x[20:] for x in solo[g0]]
                got = [rb for rb, _ in out[i]]
                if got != exp:
                    bad(dict(w, at=i, got=[x.hex() for x in got], alone=[x.hex() for x in exp]),
                        'UDP: a well-formed datagram is not answered as it is when sent alone (another peer\'s datagram interfered)'); break
    return n


def readback_frames():
    return [c02.register_frame(),
            E.build_unconnected(L.py_req(('readf', ('sym', 'T', None), 4, 0)), ctx=b'rbT', wrap=True),
            E.build_unconnected(L.py_req(('readf', ('sym', 'S', None), 3, 0)), ctx=b'rbS', wrap=True)]


def has_write(m):
    if m is None:
        return False
    if 'members' in m:
        return any(has_write(x) for x in m['members'])
    return m.get('svc') in WRITES


def reference_view(stream):
    """split the stream with the reference framer, decode every complete frame with the reference codec
    -> list of (frame bytes, 'ok' | 'ok-write' | 'reject')"""
    (frames, rest), = c02.model_frames([[stream]] if stream else [[]])
    if not frames:
        return [], rest
    decs = c01.model_dec(0, 0, frames)
    out = []
    for f, d in zip(frames, decs):
        if d is None or d[1] != 0:
            out.append((f, 'reject')); continue
        try:
            sem = K.tree_frame(d[0])
        except Exception:
            out.append((f, 'reject')); continue
        w = False
        for it in (sem.get('cpf') or []):
            msg = it.get('msg')
            if msg:
                w = w or has_write(msg.get('msg'))
        out.append((f, 'ok-write' if w else 'ok'))
    return out, rest


def salvage_bundle(f):
    """a SendRRData frame the reference rejects as a whole (trailing bytes after the items, a malformed later bundle member ...):
    the write REQUESTS in it that are complete and well-formed on their own - the region the data item declares, or the bundle
    members that are well-formed on their own, delimited by an intact offset table (cpppo executes each member separately).  -> standalone write frames"""
    if len(f) < 24 + 16 + 2 or f[0] != 0x6F:
        return []
    pay = f[24:]
    cnt = pay[6] | (pay[7] << 8)
    t0 = pay[8] | (pay[9] << 8); l0 = pay[10] | (pay[11] << 8)
    t1 = pay[12] | (pay[13] << 8); l1 = pay[14] | (pay[15] << 8)
    if cnt != 2 or t0 != 0 or l0 != 0 or t1 != 0xB2:
        return []
    # (a data item that declares more than the frame holds is bounded by the frame: the same leniency as lenient_only grants)
    body = pay[16:16 + min(l1, len(pay) - 16)]
    if body[:6] == b'\x52\x02\x20\x06\x24\x01':
        if len(body) < 10:
            return []
        n = body[8] | (body[9] << 8)
        if 10 + n > len(body):
            return []
        body = body[10:10 + n]
    if not body:
        return []
    d = c01.model_dec(1, 0, [bytes(body)])[0]
    if d is not None:
        try:
            return [E.build_unconnected(bytes(body), ctx=b'salvage0')] if has_write(K.tree_cip(d[0])) else []
        except Exception:
            return []
    if len(body) < 8 or body[0] != 0x0A:
        return []
    psz = body[1] * 2
    tab = body[2 + psz:]
    if len(tab) < 2:
        return []
    cnt = tab[0] | (tab[1] << 8)
    if len(tab) < 2 + 2 * cnt or cnt == 0:
        return []
    offs = [tab[2 + 2 * i] | (tab[3 + 2 * i] << 8) for i in range(cnt)]
    out = []
    for i, o in enumerate(offs):
        end = offs[i + 1] if i + 1 < cnt else len(tab)
        if not (2 + 2 * cnt <= o <= end <= len(tab)):
            break
        member = bytes(tab[o:end])
        d = c01.model_dec(1, 0, [member])[0]
        if d is None:
            continue                 # this member is malformed; the offset table still delimits the others, each a request of its own
        try:
            sem = K.tree_cip(d[0])
        except Exception:
            continue
        if has_write(sem):
            # (as a bundle of one: a member addressed to an object that does not exist would, sent singly, end the session)
            one = bytes([0x0A, 0x02, 0x20, 0x02, 0x24, 0x01]) + struct.pack('<HH', 1, 4) + member
            out.append(E.build_unconnected(one, ctx=b'salvage%d' % (i % 10)))
    return out


def clean_images(frames_flags):
    """images reachable by processing, whole and in order, a prefix of the frames, where frames the reference rejects may or
    may not be accepted by cpppo but must not change a tag: only reference-accepted frames are applied"""
    imgs = []
    r = run_stream(b'')
    imgs.append(r['image'])
    # the requests salvaged from a frame the reference rejects MAY have been executed (cpppo executes the members it can parse) or not
    # (it refused the frame as a whole): both histories are carried along
    histories = [[]]
    for f, flag in frames_flags:
        if flag == 'ok-write':
            histories = [h + [f] for h in histories]
            new = histories
        elif flag == 'reject':
            todo = salvage_bundle(f)
            if not todo:
                continue
            new = []
            for h in histories:
                for k in range(1, len(todo) + 1):
                    new.append(h + todo[:k])
            histories = (histories + new)[:12]
        else:
            continue
        for h in new[:12]:
            rr = run_stream(b''.join([c02.register_frame()] + h))
            if rr['image'] not in imgs:
                imgs.append(rr['image'])
    return imgs


def tcp_smoke(streams):
    s = socket.socket(); s.bind(('127.0.0.1', 0)); port = s.getsockname()[1]; s.close()
    p = subprocess.Popen([sys.executable, '-m', 'cpppo.server.enip', '--no-udp', '-a', '127.0.0.1:%d' % port, 'T=DINT[4]'],
                         stdout=subprocess.DEVNULL, stderr=subprocess.DEVNULL, cwd='/')
    problems = []
    try:
        for _ in range(100):
            try:
                c = socket.create_connection(('127.0.0.1', port), timeout=0.5); c.close(); break
            except OSError:
                time.sleep(0.1)
        else:
            raise core.HarnessError('simulator subprocess did not start listening')
        read = E.build_unconnected(L.py_req(('readf', ('sym', 'T', None), 4, 0)), ctx=b'tr', wrap=True)
        for st in streams:
            c = socket.create_connection(('127.0.0.1', port), timeout=3)
            try:
                c.sendall(st); c.shutdown(socket.SHUT_WR)
                c.settimeout(5)
                while c.recv(4096):
                    pass
            except socket.timeout:
                problems.append('connection neither answered nor closed within 5 s after %d hostile bytes' % len(st))
            except OSError:
                pass
            c.close()
            if p.poll() is not None:
                problems.append('the simulator process exited after %d hostile bytes' % len(st)); break
            c2 = socket.create_connection(('127.0.0.1', port), timeout=3)
            c2.sendall(c02.register_frame() + read)
            buf = b''
            c2.settimeout(3)
            try:
                while len(buf) < 28 + 62:
                    d = c2.recv(4096)
                    if not d:
                        break
                    buf += d
            except socket.timeout:
                pass
            c2.close()
            if len(buf) < 28 + 62 or buf[:2] != b'\x65\x00' or buf[28:30] != b'\x6f\x00' or buf[28 + 40] != 0xD2:
                problems.append('a new session was not served correctly after %d hostile bytes (got %d reply bytes)' % (len(st), len(buf)))
        # peers that connect and abort at once (RST before the server gets round to accept()), in bursts, some with a few bytes sent first:
        # zero bytes of input must not take the listener down either
        if not problems:
            held = socket.create_connection(('127.0.0.1', port), timeout=3)
            held.sendall(c02.register_frame()); held.settimeout(3); held.recv(4096)
            for burst in range(3):
                for k in range(40):
                    try:
                        c = socket.socket(); c.settimeout(1)
                        c.setsockopt(socket.SOL_SOCKET, socket.SO_LINGER, struct.pack('ii', 1, 0))
                        c.connect(('127.0.0.1', port))
                        if k % 5 == 4:
                            c.send(b'\x6f\x00\x10')
                        c.close()
                    except OSError:
                        pass
                time.sleep(0.3)
            time.sleep(0.5)
            if p.poll() is not None:
                problems.append('the simulator process exited after bursts of connections that were reset at once')
            else:
                try:
                    held.sendall(read); got = held.recv(4096)
                    if got[:2] != b'\x6f\x00':
                        problems.append('an established session was no longer served after bursts of connections that were reset at once')
                    c2 = socket.create_connection(('127.0.0.1', port), timeout=3)
                    c2.sendall(c02.register_frame()); c2.settimeout(3)
                    if c2.recv(4096)[:2] != b'\x65\x00':
                        problems.append('a new session was not served after bursts of connections that were reset at once')
                    c2.close()
                except OSError as e:
                    problems.append('after bursts of connections that were reset at once: %s %s' % (type(e).__name__, e))
            held.close()
    finally:
        p.terminate()
        try:
            p.wait(5)
        except Exception:
            p.kill()
    return problems


def run(ctx):
    E.quiet()
    ctx.prove()
    rng = ctx.rng
    cov = ctx.coverage
    N = 1500 if ctx.thorough else 260
    nbad, ndis, first = 0, 0, None
    kinds = {}
    nchanged = 0
    worst = 0.0
    hostile_for_tcp = []

    def bad(w, what):
        nonlocal nbad
        nbad += 1
        if nbad <= 5:
            ctx.violation(w, what)

    base0 = run_stream(b'')['image']
    store_enc = L.enc_case((488, c06.TAGS, []))[1:-1]
    names = {t['name'].lower(): k for k, t in enumerate(c06.TAGS)}
    valid = []
    crafted = crafted_streams()
    # scripted well-formed sessions, run with every seed (requests that name objects / instances / attributes that do not exist, next to
    # ones that do): afterwards the tags are what the session model says
    env = lambda k: (0x1234, struct.pack('<Q', k), 0)
    for items in ([('multi', [('set', ('num', 2, 7, 1, None), [0x5A] * 16), ('readf', ('sym', 'T', None), 4, 0), ('get', ('num', 2, 9, 1, None))]),
                   ('multi', [('read', ('sym', 'T', None), 1), ('get', ('num', 0x77, 1, 1, None)), ('set', ('num', 0x99, 7, 2, None), [0x33] * 6), ('get', ('num', 0x99, 1, 2, None))]),
                   ('set', ('sym', 'Tx', None), [1, 2]), ('get', ('num', 0x99, 1, 9, None)), ('set', ('num', 0x99, 1, 2, None), [1, 0, 2, 0, 3, 0])],
                  [('multi', [('set', ('num', 0x99, 2, 2, None), [0x44] * 6), ('set', ('num', 2, 2, 1, None), [0x45] * 16)]), ('read', ('sym', 'S', None), 3)]):
        sess = [(('register',),) + env(0)] + [(('send', None, it),) + env(k + 1) for k, it in enumerate(items)]
        frs = [c06.frame_of(*x) for x in sess]
        valid.append((sess, frs, run_stream(b''.join(frs))))
    for i in range(N + len(crafted)):
        if i >= N:
            kind, stream = crafted[i - N]
            session, frames = [], []
        session = c06.gen_session(rng, None)
        # make writes frequent: they are what a corrupted stream could abuse
        session = [x for x in session if x[0][0] != 'unregister']
        frames = [c06.frame_of(*x) for x in session]
        if i % 4 == 0:
            # the unmutated session too: afterwards the tags must be what the session model says (Model.Session over Model.Logix, where
            # only acknowledged writes change elements) - a refused or half-executed request that leaves a trace shows up here
            r0 = run_stream(b''.join(frames))
            valid.append((session, frames, r0))
        if i < N:
            kind, stream = mutate(rng, frames)
        kinds[kind.split('@')[0].rstrip('0123456789')] = kinds.get(kind.split('@')[0].rstrip('0123456789'), 0) + 1
        r = run_stream(stream)
        worst = max(worst, r['seconds'])
        w = dict(mutation=kind, stream=stream.hex(), seconds=round(r['seconds'], 3), error=r['err'], replies=len(r['replies']))
        if r['hang']:
            bad(w, 'processing did not finish within %.0f s for %d input bytes' % (4.0, len(stream))); continue
        if r['bad_exc']:
            bad(w, 'a non-Exception (%s) escaped the connection handler' % r['bad_exc']); continue
        if r['seconds'] > 1.0 + len(stream) / 200.0:
            bad(w, 'processing time %.2f s is not bounded by the input length (%d bytes)' % (r['seconds'], len(stream))); continue
        if not r['closed']:
            bad(w, 'the connection was neither answered to the end nor closed'); continue
        if r['stale']:
            bad(w, 'per-connection state was left behind after the connection ended (the next session from this peer inherits it)'); continue
        if not r['second_ok']:
            bad(w, 'a new session was not served after this input'); continue
        if r['shape'] != [t['n'] for t in c06.TAGS]:
            bad(dict(w, tag_lengths=r['shape'], configured=[t['n'] for t in c06.TAGS]),
                'the tag store is corrupted: a tag no longer has its configured number of elements'); continue
        if r['image'] != base0:
            nchanged += 1
            flags, rest = reference_view(stream)
            allowed = clean_images(flags)
            if r['image'] not in allowed:
                # tolerate don't-care bytes (pads, reserved) that cpppo ignores and the strict reference rejects: re-render
                # each rejected frame through cpppo's own parser + producer and ask the reference again
                flags2 = []
                for f, fl in flags:
                    if fl == 'reject':
                        try:
                            sem, left = K.impl_parse_frame(f)
                            canon = K.impl_produce_frame(sem)
                            d2 = c01.model_dec(0, 0, [canon])[0]
                            if (left == 0 and len(canon) == len(f) and d2 is not None and sum(a != b for a, b in zip(canon, f)) <= 3
                                    and lenient_only(canon, f)):
                                semc = K.tree_frame(d2[0])
                                wr = any(has_write((it.get('msg') or {}).get('msg')) for it in (semc.get('cpf') or []))
                                fl = 'ok-write' if wr else 'ok'
                        except Exception:
                            pass
                    flags2.append((f, fl))
                allowed = clean_images(flags2)
            if r['image'] not in allowed:
                bad(dict(w, reference=[fl for _, fl in flags], unfinished_tail=len(rest)),
                    'a tag was altered by something other than the complete, well-formed write requests in the stream')
                continue
        if len(hostile_for_tcp) < 5 and kind.split('@')[0] in ('random30', 'truncate', 'field16', 'garbage-after', 'cut-frame1'):
            hostile_for_tcp.append(stream)
    for (session, frames, r0), o in zip(valid, core.run_model('session', [c06.enc_model(None, store_enc, c06.model_part(None, sess)[0], names) for sess, _, _ in valid])):
        _, mhash = c06.dec_model(o)
        if r0['hang'] or r0['bad_exc']:
            bad(dict(stream=b''.join(frames).hex()), 'a well-formed session did not finish'); continue
        if L.hash_list(r0['image']) != mhash:
            bad(dict(session=[(q[0], L.describe_req(q[2]) if q[0] == 'send' else None) for q, _, _, _ in session], stream=b''.join(frames).hex(),
                     replies=[x.hex() for x in r0['replies']]),
                'after a well-formed session the tags differ from the array model in which only acknowledged writes change elements '
                '(a refused or half-executed request left a trace)')
    cov['valid_sessions_against_the_session_model'] = len(valid)
    nudp = udp_check(ctx, bad)
    cov['udp_datagram_sequences'] = nudp
    for pm in tcp_smoke(hostile_for_tcp or [b'\x6f\x00\xff\xff' + bytes(20)])[:2]:
        bad(dict(tcp=pm), 'TCP: ' + pm)
    cov['evaluations'] = N + len(hostile_for_tcp)
    cov['distinct_nontrivial'] = nchanged
    cov['exhaustive'] = False
    cov['rule'] = ('%d hostile streams derived from generated valid sessions (register, reads, writes, bundles, attribute services, routed requests): %s; '
                   'each under a 4 s guard with tags / leftover connection state / second-session liveness checked; %d streams changed a tag and were justified '
                   'against the reference decoder; slowest run %.2f s; %d streams replayed against a real TCP listener'
                   % (N, ', '.join('%s x%d' % kv for kv in sorted(kinds.items())), nchanged, worst, len(hostile_for_tcp)))
    cov['input_distribution'] = kinds
    cov['impl_model_disagreements'] = ndis
    cov['impl_property_failures'] = nbad
    ctx.sample(dict(example_mutations=sorted(kinds)[:8]))
    ctx.assumptions += ['hang-freedom, exception containment and liveness are observed at run time (time guard, in-process connection handler, one TCP listener); '
                        'the theorems carry the logic only (which inputs may change tags, complete-frames-only, limits, cycle bound)',
                        'the reference decoder decides "complete, well-formed write"; bytes cpppo ignores (pads, reserved) are tolerated via cpppo\'s own re-rendering when <= 3 bytes differ and each differing field is re-rendered as zero or had declared more than its enclosing structure holds']


def replay(ctx, rep):
    w = rep.get('witness') or {}
    if 'stream' in w:
        E.quiet()
        print(run_stream(bytes.fromhex(w['stream'])))
    return 1
