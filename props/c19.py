"""C19 — merging register ranges never drops a requested register.
Theorems: coq/Properties/C19.v over coq/Model/Plc.v (hand-written model of shatter/merge).
Tie: correspondence — the model (extracted) and cpppo.remote.plc_modbus are run on the same inputs
(exhaustive small scope + seeded random); the implementation's outputs are additionally judged
directly against the property (oracle below) to find a replayable failing input."""
import itertools
from vlib import core


def impl_merge(ranges, reach, limit):
    from cpppo.remote.plc_modbus import merge
    try:
        out = list(itertools.islice(merge(list(ranges), reach=reach, limit=limit), 100000))
    except Exception as e:
        return ('exc', type(e).__name__)
    return ('ok', [tuple(r) for r in out])


def impl_shatter(a, c, limit):
    from cpppo.remote.plc_modbus import shatter
    try:
        out = list(itertools.islice(shatter(a, c, limit=limit), 100000))
    except Exception as e:
        return ('exc', type(e).__name__)
    return ('ok', [tuple(r) for r in out])


def default_limit(a):
    return 1968 if (1 <= a <= 9999 or 10001 <= a <= 19999 or 100001 <= a <= 165536) else 123


def oracle_merge(ranges, reach, limit, out):
    """The property, stated directly on an implementation output.  Returns None or a description."""
    req = set()
    for a, c in ranges:
        req.update(range(a, a + c))
    cov = set()
    prev_end = None
    for a, c in out:
        if c < 1:
            return 'empty or negative output range %r' % ((a, c),)
        if prev_end is not None and a < prev_end:
            return 'output not sorted/disjoint at %r' % ((a, c),)
        prev_end = a + c
        if a // 10000 != (a + c - 1) // 10000:
            return 'output range %r crosses a 10000 bank boundary' % ((a, c),)
        lim = limit if limit else max(default_limit(b) for b, _ in ranges if b // 10000 == a // 10000) \
            if any(b // 10000 == a // 10000 for b, _ in ranges) else 0
        if c > lim:
            return 'output range %r longer than limit %r' % ((a, c), lim)
        cov.update(range(a, a + c))
    miss = sorted(req - cov)
    if miss:
        return 'requested register %d not covered' % miss[0]
    r = max(reach or 1, 1)
    for x in sorted(cov - req):
        if not any((x + d) in req for d in range(-r, r + 1)):
            return 'register %d in output is not within reach %d of a requested one' % (x, r)
    return None


def oracle_shatter(a, c, limit, out):
    pos = a
    lim = limit or default_limit(a)
    for pa, pc in out:
        if pa != pos or pc < 1 or pc > lim:
            return 'piece %r does not continue the tiling at %d with 1..%d registers' % ((pa, pc), pos, lim)
        pos += pc
    if pos != a + c:
        return 'pieces end at %d, range ends at %d' % (pos, a + c)
    return None


def enc(kind, ranges, reach, limit):
    flat = [x for r in ranges for x in r]
    return [kind, reach, 0 if limit is None else 1, 0 if limit is None else limit, len(ranges)] + flat


def dec(out):
    if not out or out[0] != 1:
        return ('exc', None)
    return ('ok', list(zip(out[1::2], out[2::2])))


def nontrivial(ranges, reach):
    rs = sorted(ranges)
    r = max(reach or 1, 1)
    for (a, c), (b, d) in zip(rs, rs[1:]):
        if b // 10000 == a // 10000 and b < a + c + r:
            return True
    return False


def universe(addrs, maxc):
    u = []
    for a in addrs:
        for c in range(1, maxc + 1):
            if a // 10000 == (a + c - 1) // 10000:
                u.append((a, c))
    return u


def gen_cases(ctx):
    cases = []
    small = list(range(0, 8)) + list(range(9997, 10004))
    u = universe(small, 4)
    reaches = [0, 1, 2, 3]
    limits = [None, 0, 1, 2, 3]
    # exhaustive: all multisets of 1..2 ranges
    for n in (1, 2):
        for rs in itertools.combinations_with_replacement(u, n):
            for reach in reaches:
                for limit in limits:
                    cases.append((0, list(rs), reach, limit))
    exhaustive_pairs = len(cases)
    # triples: exhaustive on a narrower universe in thorough, sampled in quick
    u3 = universe(list(range(0, 7)) + [9998, 9999, 10000, 10001], 3)
    trip = list(itertools.combinations_with_replacement(u3, 3))
    if not ctx.thorough:
        trip = ctx.rng.sample(trip, 1500)
    for rs in trip:
        for reach in (0, 1, 2, 3) if ctx.thorough else (ctx.rng.choice(reaches), 1):
            for limit in (limits if ctx.thorough else (None, ctx.rng.choice(limits))):
                cases.append((0, list(rs), reach, limit))
    # the request list is a set: every other pair / triple is handed over in descending order (C19_merge_order_irrelevant says
    # the model's answer cannot depend on it; the implementation and the model both get the list as given)
    cases = [(k, list(reversed(rs)), reach, limit) if n % 2 else (k, rs, reach, limit) for n, (k, rs, reach, limit) in enumerate(cases)]
    # random: larger lists, realistic Modbus addresses, default limits
    n_rand = 40000 if ctx.thorough else 4000
    bases = [0, 1, 9990, 10001, 19990, 30001, 40001, 49900, 100001, 165000, 300001, 400001, 465000]
    for _ in range(n_rand):
        k = ctx.rng.randint(1, 7)
        base = ctx.rng.choice(bases)
        span = ctx.rng.choice([10, 40, 400, 3000])
        rs = []
        for _ in range(k):
            a = base + ctx.rng.randint(0, span)
            if ctx.rng.random() < 0.2:
                a = ctx.rng.choice(bases) + ctx.rng.randint(0, span)
            c = ctx.rng.choice([1, 1, 2, 3, 10, 100, 125, 500, 2500])
            c = min(c, (a // 10000 + 1) * 10000 - a)
            rs.append((a, c))
        if ctx.rng.random() < 0.2:
            rs.append(ctx.rng.choice(rs))
        reach = ctx.rng.choice([0, 1, 2, 5, 10, 50, 100, 1000])
        limit = ctx.rng.choice([None, None, 0, 1, 5, 100, 123, 125, 2000])
        cases.append((0, rs, reach, limit))
    # shatter: exhaustive small + bank defaults
    for a in (0, 1, 5, 9999, 10000, 10001, 40001, 100001, 165536, 165537):
        for c in list(range(0, 12)) + [122, 123, 124, 246, 1967, 1968, 1969, 4000]:
            for limit in (None, 0, 1, 2, 3, 5, 123, 5000):
                cases.append((1, [(a, c)], 0, limit))
    return cases, exhaustive_pairs


def run_case(case):
    kind, rs, reach, limit = case
    if kind == 0:
        return impl_merge(rs, reach, limit)
    return impl_shatter(rs[0][0], rs[0][1], limit)


def judge(case, obs):
    kind, rs, reach, limit = case
    if obs[0] != 'ok':
        return 'raised %s' % obs[1]
    if kind == 0:
        return oracle_merge(rs, reach, limit, obs[1])
    return oracle_shatter(rs[0][0], rs[0][1], limit, obs[1])


def describe(case):
    kind, rs, reach, limit = case
    return dict(call='merge' if kind == 0 else 'shatter', ranges=[list(r) for r in rs], reach=reach, limit=limit)


def run(ctx):
    ctx.prove()
    cases, nex = gen_cases(ctx)
    impl = [run_case(c) for c in cases]
    model = [dec(o) for o in core.run_model('plc', [enc(*c) for c in cases])]
    cov = ctx.coverage
    cov['evaluations'] = len(cases)
    seen = set()
    for c in cases:
        if c[0] == 0 and len(c[1]) >= 2 and nontrivial(c[1], c[2]):
            seen.add((tuple(sorted(c[1])), c[2], c[3]))
    cov['distinct_nontrivial'] = len(seen)
    cov['rule'] = ('merge: all multisets of 1-2 ranges over addresses {0..7, 9997..10003} x counts 1..4 x reach 0..3 x '
                   'limit {None,0,1,2,3} (exhaustive, %d cases); triples over a narrower universe (%s); seeded random lists of '
                   '1-8 ranges at realistic Modbus bank addresses; every other pair / triple in descending order; shatter grid.  non-trivial = merge case with two sorted '
                   'neighbours in one bank within reach (overlap/adjacent/nested/duplicate/gap<=reach); distinct by sorted input'
                   % (nex, 'exhaustive' if ctx.thorough else 'sampled'))
    cov['exhaustive'] = False
    dist = {}
    for c in cases:
        k = 'shatter' if c[0] else 'merge/%d' % min(len(c[1]), 4)
        dist[k] = dist.get(k, 0) + 1
    cov['input_distribution'] = dist
    ndis, nbad = 0, 0
    first_dis = None
    for c, i, m in zip(cases, impl, model):
        why = judge(c, i)
        if why is not None:
            nbad += 1
            if nbad <= 3:
                ctx.violation(dict(describe(c), impl_output=i[1], model_output=m[1]), why)
        if i != m:
            ndis += 1
            if first_dis is None:
                first_dis = dict(describe(c), impl_output=i[1], model_output=m[1])
    cov['impl_model_disagreements'] = ndis
    cov['impl_property_failures'] = nbad
    if ndis and not nbad:
        ctx.unresolved('correspondence cpppo.remote.plc_modbus.merge/shatter = Model.Plc.merge/shatter', first_dis)
    elif ndis:
        ctx.broken.append('correspondence cpppo.remote.plc_modbus.merge/shatter = Model.Plc.merge/shatter')
    # what is logged must not change what is planned: every 7th case again with the library's loggers at DEBUG (modbus_poll -v -v)
    import logging
    saved = []
    for name in ('cpppo.remote', 'cpppo', 'remote'):
        lg = logging.getLogger(name)
        saved.append((lg, lg.level, lg.propagate, list(lg.handlers)))
        lg.setLevel(logging.DEBUG); lg.propagate = False; lg.handlers = [logging.NullHandler()]
    try:
        nlog = 0
        for c, i in list(zip(cases, impl))[::7]:
            nlog += 1
            j = run_case(c)
            if j != i:
                nbad += 1
                ctx.violation(dict(describe(c), output=i[1], output_with_debug_logging=j[1]), 'with DEBUG logging enabled the result differs')
                break
    finally:
        for lg, level, prop, hs in saved:
            lg.setLevel(level); lg.propagate = prop; lg.handlers = hs
    cov['cases_repeated_with_debug_logging'] = nlog
    cov['impl_property_failures'] = nbad
    for c, i in list(zip(cases, impl))[:: max(1, len(cases) // 5)]:
        ctx.sample(dict(describe(c), impl_output=i[1]))
    ctx.assumptions += ['Python int = Coq Z; sorted() on tuples = lexicographic insertion sort of the model',
                        'inputs: counts >= 1, each range inside one 10000-bank, reach >= 0, limit None or >= 0']


def replay(ctx, rep):
    w = rep['witness']
    case = (0 if w['call'] == 'merge' else 1, [tuple(r) for r in w['ranges']], w['reach'], w['limit'])
    obs = run_case(case)
    why = judge(case, obs)
    print('input', describe(case), '\nimpl ->', obs, '\nproperty:', why or 'holds')
    return 1 if why else 0
