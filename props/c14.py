"""C14 — independent Logix client implementations interoperate with the simulator.
Theorems: coq/Properties/C14.v (connected sessions = the array model behind Forward Open; sequence count echoed and 16-bit clean;
the reference codec for Connection Manager services and frames).
Observation: against a live simulator subprocess
  (a) pylogix (an independent EtherNet/IP client): register, Forward Open, random histories of Read / Write / array reads larger
      than one reply (incl. exact-fit sizes) / multi-reads / out-of-range and unknown tags, judged against a plain array model;
      the connection's sequence counter is carried across 0x8000 and the 16-bit wrap;
  (b) a raw client whose every request is encoded by the extracted reference encoder (Model.Codec: frames, CPF items,
      Forward Open / Close) and whose every reply must be accepted by the extracted reference decoder and carry the echoed
      sequence count, the reply service code and the array model's values."""
import socket, struct, subprocess, sys, time
from vlib import core

TAGS = {'T': ('DINT', 300), 'S': ('INT', 250), 'B': ('SINT', 8), 'R': ('REAL', 5), 'U': ('UINT', 60)}
TYCODE = {'DINT': 196, 'INT': 195, 'SINT': 194, 'REAL': 202, 'UINT': 199}
RANGE = {'DINT': (-2 ** 31, 2 ** 31 - 1), 'INT': (-32768, 32767), 'SINT': (-128, 127), 'UINT': (0, 65535)}
OK, NOPATH, RANGE_ERR = 'Success', 'Path destination unknown', 'Unknown error 255'


def start_simulator():
    s = socket.socket(); s.bind(('127.0.0.1', 0)); port = s.getsockname()[1]; s.close()
    p = subprocess.Popen([sys.executable, '-m', 'cpppo.server.enip', '--no-udp', '-a', '127.0.0.1:%d' % port] +
                         ['%s=%s[%d]' % (k, v[0], v[1]) for k, v in TAGS.items()] + ['X=REAL', 'Y=LREAL', 'Z=DINT', 'BIG=DINT[16600]', 'E1=DINT[4]', 'E2=INT[4]', 'E3=REAL[4]', 'E4=DINT[4]', 'E5=SINT[4]', 'E6=LINT[4]', 'HUGE=SINT[40000]'],      # 13 tags without an address: the 10th and later get two-digit attribute numbers
                         stdout=subprocess.DEVNULL, stderr=subprocess.DEVNULL, cwd='/')
    for _ in range(150):
        try:
            c = socket.create_connection(('127.0.0.1', port), timeout=0.5); c.close(); return p, port
        except OSError:
            time.sleep(0.1)
    p.kill()
    raise core.HarnessError('simulator subprocess did not start listening')


def rand_val(rng, ty):
    if ty == 'REAL':
        return rng.randrange(-2000, 2000) * 0.25
    lo, hi = RANGE[ty]
    return rng.choice([lo, hi, 0, 1, max(lo, -1), (lo + hi + 1) // 2, rng.randrange(lo, hi + 1)])


def forward_open_sizes(port):
    """Forward Open (frames from the reference encoder) at the largest connection sizes the two services can ask for - 511 bytes (small,
    9 bits) and 65535 (large, 16 bits) - and at their neighbours: each must be answered by a successful reply of its own service and
    closed cleanly.  -> problems"""
    from props import c01, codec_common as K
    problems = []
    for large, size in ((False, 511), (False, 510), (False, 1), (True, 65535), (True, 65534), (True, 512)):
        s = socket.create_connection(('127.0.0.1', port), timeout=3)
        try:
            s.sendall(c01.model_enc(0, 0, [K.frame_tree(dict(cmd=101, session=0, status=0, ctx=b'fosizes_', options=0, nums=[1, 0]))])[0])
            r = recv_frame(s)
            sess = struct.unpack('<I', r[4:8])[0] if r else 0
            fo = dict(path=[('class', 6), ('instance', 1)], prio=10, ticks=5, ot=(0x20000002, 2000000, (size, 1, 0, 2, 0)),
                      to=(0x20000001, 2000000, (size, 1, 0, 2, 0)), serial=0x4242, vendor=0x1337, oserial=0xDEADBEEF, mult=3, transport=0xA3,
                      cpath=[('port', 1, 0), ('class', 2), ('instance', 1)])
            cmb = c01.model_enc(11, 0, [K.fo_tree(fo, K.ncp_model(large, fo['ot'][2]), K.ncp_model(large, fo['to'][2]), large)])[0]
            pay = struct.pack('<IHHHHHH', 0, 8, 2, 0, 0, 0xB2, len(cmb)) + cmb
            s.sendall(struct.pack('<HHII8sI', 0x6F, len(pay), sess, 0, b'fosize__', 0) + pay)
            rb = recv_frame(s)
            want = 0xDB if large else 0xD4
            if rb is None or rb[8:12] != bytes(4) or len(rb) < 44 or rb[40] != want or rb[42] != 0:
                problems.append(dict(operation='%s Forward Open asking for %d bytes' % ('Large' if large else 'Small', size),
                                     got=(rb or b'')[:48].hex(), expected='encapsulation status 0, service 0x%02X, CIP status 0' % want))
                continue
            fcb = c01.model_enc(11, 0, [K.cm_tree(dict(kind='fc_req', path=fo['path'], prio=10, ticks=5, serial=fo['serial'], vendor=fo['vendor'],
                                                       oserial=fo['oserial'], cpath=fo['cpath']))])[0]
            pay = struct.pack('<IHHHHHH', 0, 8, 2, 0, 0, 0xB2, len(fcb)) + fcb
            s.sendall(struct.pack('<HHII8sI', 0x6F, len(pay), sess, 0, b'foclose_', 0) + pay)
            rb = recv_frame(s)
            if rb is None or rb[8:12] != bytes(4) or len(rb) < 44 or rb[40] != 0xCE or rb[42] != 0:
                problems.append(dict(operation='Forward Close after a Forward Open of %d bytes' % size, got=(rb or b'')[:48].hex(), expected='service 0xCE, status 0'))
        except OSError as e:
            problems.append(dict(operation='Forward Open %d' % size, problem='connection error %s' % type(e).__name__))
        finally:
            s.close()
    return problems


# ---------------------------------------------------------------- (a) pylogix
def pylogix_scalars_and_big(port, rng, spec=None):
    """scalar tags declared without a size (X=REAL, Y=LREAL, Z=DINT) written with fractional / boundary values and read back singly
    and in a multi-read; one array longer than 64 KiB read in a single call (the byte offset passes 16 bits).  -> problems"""
    import pylogix
    problems = []
    with pylogix.PLC() as comm:
        comm.IPAddress = '127.0.0.1'; comm.Port = port
        comm.SocketTimeout = 5
        try:
            model = {'X': 0.0, 'Y': 0.0, 'Z': 0}
            for step in range(12):
                name = rng.choice(['X', 'X', 'Z'])            # (pylogix has no LREAL write; Y is only read)
                v = rng.choice([3.75, -0.5, 0.125, 1e-3, -1234.5, 2.0]) if name == 'X' else rng.choice([0, -1, 2 ** 31 - 1, -2 ** 31, 77])
                r = comm.Write(name, v)
                if r.Status != OK:
                    problems.append(dict(operation='Write %s = %r' % (name, v), got=r.Status, expected=OK)); break
                model[name] = struct.unpack('<f', struct.pack('<f', v))[0] if name == 'X' else v
                r = comm.Read(name)
                if (r.Value, r.Status) != (model[name], OK):
                    problems.append(dict(operation='Write %s = %r then Read %s' % (name, v, name), got=repr((r.Value, r.Status)), expected=repr((model[name], OK)))); break
            rs = comm.Read(['X', 'Z', 'Y'])
            got = [(x.Value, x.Status) for x in rs]
            if got != [(model['X'], OK), (model['Z'], OK), (0.0, OK)]:
                problems.append(dict(operation="Read ['X','Z','Y']", got=repr(got), expected=repr([(model['X'], OK), (model['Z'], OK), (0.0, OK)])))
            # reads whose data fill a reply exactly (122 DINT, 244 INT at the default budget), one less and one more, from several starts
            for nm, i, cnt in (('T', 0, 122), ('T', 17, 122), ('T', 0, 244), ('T', 3, 121), ('T', 3, 123), ('S', 0, 244), ('S', 5, 244), ('S', 1, 243), ('S', 2, 245)):
                if spec is None:
                    break
                r = comm.Read('%s[%d]' % (nm, i), cnt)
                if (list(r.Value or []), r.Status) != (list(spec[nm][i:i + cnt]), OK):
                    problems.append(dict(operation='Read %s[%d] x %d (exact-fit neighbourhood)' % (nm, i, cnt), got=repr((r.Status, len(r.Value or []))), expected=repr((OK, cnt))))
            # the 9th..13th tag declared: each its own array of its own type
            late = {'E1': [11, -12, 13, 14], 'E2': [21, 22, -23, 24], 'E3': [31.5, -32.25, 33.0, 34.75], 'E4': [41, 42, 43, -44], 'E5': [51, -52, 53, 54]}
            for nm, vs in late.items():
                r = comm.Write('%s[0]' % nm, vs)
                if r.Status != OK:
                    problems.append(dict(operation='Write %s[0] = %r' % (nm, vs), got=r.Status, expected=OK))
            # 64-bit integers, written more than once on the same connection and on the next
            late['E6'] = [2 ** 40 + 1, -5, 6, -2 ** 62]
            for vs in ([1, 2, 3, 4], [-1, 2 ** 33, 0, 9], late['E6']):
                r = comm.Write('E6[0]', vs)
                if r.Status != OK:
                    problems.append(dict(operation='Write E6[0] = %r (LINT; repeated writes)' % (vs,), got=r.Status, expected=OK))
            for nm, vs in late.items():
                r = comm.Read('%s[0]' % nm, 4)
                if (list(r.Value or []), r.Status) != (vs, OK):
                    problems.append(dict(operation='Read %s[0] x 4 (after writing all of E1..E5)' % nm, got=repr((r.Value, r.Status)), expected=repr((vs, OK))))
            # markers across the 64 KiB line, then the whole array in one call
            n = 16600
            big = [0] * n
            for i in (0, 85, 86, 16383, 16384, 16469, 16470, 16471, n - 1):
                big[i] = 1000 + i
                r = comm.Write('BIG[%d]' % i, big[i])
                if r.Status != OK:
                    problems.append(dict(operation='Write BIG[%d]' % i, got=r.Status, expected=OK))
            r = comm.Read('BIG[0]', n)
            if r.Status != OK or list(r.Value or []) != big:
                v = list(r.Value or [])
                k = next((i for i, (a, b) in enumerate(zip(v, big)) if a != b), min(len(v), len(big)))
                problems.append(dict(operation='Read BIG[0] x %d (%d bytes)' % (n, 4 * n), got='%s, %d values, first difference at element %d' % (r.Status, len(v), k),
                                     expected='Success, %d values' % n))
            r = comm.Read('BIG[16400]', 200)
            if r.Status != OK or list(r.Value or []) != big[16400:]:
                problems.append(dict(operation='Read BIG[16400] x 200', got=repr((r.Status, list(r.Value or [])[:5])), expected=repr((OK, big[16400:16405]))))
            # element indices that need all 16 bits of the element segment
            huge = {}
            for i, v in ((32767, 7), (32768, -8), (32769, 9), (39999, -10), (255, 11), (256, 12)):
                r = comm.Write('HUGE[%d]' % i, v); huge[i] = v
                if r.Status != OK:
                    problems.append(dict(operation='Write HUGE[%d] = %d (SINT[40000])' % (i, v), got=r.Status, expected=OK))
            for i, cnt in ((32767, 3), (39999, 1), (255, 2), (32768, 300)):
                r = comm.Read('HUGE[%d]' % i, cnt)
                exp = [huge.get(i + k, 0) for k in range(cnt)]
                if (list(r.Value or []) if cnt > 1 else [r.Value], r.Status) != (exp, OK):
                    problems.append(dict(operation='Read HUGE[%d] x %d' % (i, cnt), got=repr((r.Status, (list(r.Value or [])[:4] if cnt > 1 else r.Value))), expected=repr((OK, exp[:4]))))
        except Exception as e:
            problems.append(dict(operation='scalars / big array', problem='the client raised %s: %s' % (type(e).__name__, str(e)[:120])))
    return problems


def pylogix_history(port, rng, steps, spec, seq_start=None):
    """-> list of problems"""
    import pylogix
    problems = []
    with pylogix.PLC() as comm:
        comm.IPAddress = '127.0.0.1'; comm.Port = port
        comm.SocketTimeout = 3
        first = True
        for step in range(steps):
          name = rng.choice(list(TAGS)); ty, n = TAGS[name]
          k = rng.random()
          what = 'step %d' % step
          try:
              if k < 0.30:
                  i = rng.randrange(n); r = comm.Read('%s[%d]' % (name, i))
                  want = (spec[name][i], OK)
                  got = (r.Value, r.Status)
                  what = 'Read %s[%d]' % (name, i)
              elif k < 0.50:
                  i = rng.randrange(n)
                  cnt = rng.choice([1, 2, 5, n - i, rng.randrange(1, n - i + 1)] + ([121, 122, 123, 244, 250] if n >= 250 else []))
                  cnt = max(1, min(cnt, n - i))
                  r = comm.Read('%s[%d]' % (name, i), cnt)
                  want = (spec[name][i:i + cnt] if cnt > 1 else spec[name][i], OK)
                  got = (r.Value, r.Status)
                  what = 'Read %s[%d] x %d' % (name, i, cnt)
              elif k < 0.62:
                  picks = [(nm, rng.randrange(TAGS[nm][1])) for nm in rng.sample(list(TAGS), rng.randrange(2, 4))]
                  rs = comm.Read(['%s[%d]' % p for p in picks])
                  want = [(spec[nm][i], OK) for nm, i in picks]
                  got = [(x.Value, x.Status) for x in rs]
                  what = 'Read %r' % (picks,)
              elif k < 0.80:
                  i = rng.randrange(n); v = rand_val(rng, ty)
                  r = comm.Write('%s[%d]' % (name, i), v)
                  spec[name][i] = v
                  want, got = OK, r.Status
                  what = 'Write %s[%d] = %r' % (name, i, v)
              elif k < 0.90:
                  i = rng.randrange(n); cnt = rng.randrange(2, min(n - i, 40) + 1) if n - i >= 2 else 1
                  vs = [rand_val(rng, ty) for _ in range(cnt)]
                  r = comm.Write('%s[%d]' % (name, i), vs if cnt > 1 else vs[0])
                  spec[name][i:i + cnt] = vs
                  want, got = OK, r.Status
                  what = 'Write %s[%d] = %d values' % (name, i, cnt)
              elif k < 0.95:
                  r = comm.Read('%s[%d]' % (name, n - 1), 5)              # runs off the end
                  want, got = (None, RANGE_ERR), (r.Value, r.Status)
                  what = 'Read %s[%d] x 5 (out of range)' % (name, n - 1)
              else:
                  r = comm.Read('NoSuchTag')
                  want, got = (None, NOPATH), (r.Value, r.Status)
                  what = 'Read NoSuchTag'
          except Exception as e:
            problems.append(dict(step=step, operation=what, problem='the client raised %s: %s' % (type(e).__name__, str(e)[:120]),
                                 sequence_counter=getattr(comm.conn, '_sequence_counter', None)))
            break
          if True:
            if got != want:
                problems.append(dict(step=step, operation=what, got=repr(got)[:300], expected=repr(want)[:300],
                                     sequence_counter=getattr(comm.conn, '_sequence_counter', None)))
                if len(problems) >= 3:
                    break
            if first and seq_start is not None and hasattr(comm.conn, '_sequence_counter'):
                comm.conn._sequence_counter = seq_start          # stands in for that many earlier requests on this connection
                first = False
        # final sweep: the whole of every tag
        for name, (ty, n) in TAGS.items():
            if problems:
                break
            try:
                r = comm.Read('%s[0]' % name, n)
            except Exception as e:
                problems.append(dict(step='final', operation='Read %s[0] x %d' % (name, n), problem='the client raised %s' % type(e).__name__)); break
            if (r.Value, r.Status) != (spec[name], OK) and len(problems) < 4:
                vals = r.Value if isinstance(r.Value, list) else []
                k = next((j for j, (a, b) in enumerate(zip(vals, spec[name])) if a != b), None)
                problems.append(dict(step='final', operation='Read %s[0] x %d' % (name, n), status=r.Status, first_difference=k))
    return problems


# ---------------------------------------------------------------- (b) raw reference client
def recv_frame(s):
    buf = b''
    while len(buf) < 24 or len(buf) < 24 + struct.unpack('<H', buf[2:4])[0]:
        d = s.recv(4096)
        if not d:
            return None
        buf += d
    return buf


def raw_client(port, rng, spec, seqs):
    from props import c01, codec_common as K
    problems = []
    s = socket.create_connection(('127.0.0.1', port), timeout=3)
    try:
        def enc_frame(f):
            b = c01.model_enc(0, 0, [K.frame_tree(f)])[0]
            if not isinstance(b, bytes):
                raise core.HarnessError('reference encoder refused %r' % (f,))
            return b

        def dec_frame(b):
            d = c01.model_dec(0, 0, [b])[0]
            return None if d is None or d[1] != 0 else K.tree_frame(d[0])
        s.sendall(enc_frame(dict(cmd=101, session=0, status=0, ctx=b'refregis', options=0, nums=[1, 0])))
        r = dec_frame(recv_frame(s) or b'')
        if not r or r['cmd'] != 101 or not r['session'] or r['nums'] != [1, 0]:
            return [dict(step='Register', reply=repr(r))]
        sess = r['session']
        # Forward Open through the reference Connection Manager encoder, carried in an unconnected data item
        fo = dict(path=[('class', 6), ('instance', 1)], prio=10, ticks=5, ot=(0x20000002, 2000000, (500, 1, 0, 2, 0)),
                  to=(0x20000001, 2000000, (500, 1, 0, 2, 0)), serial=0x4242, vendor=0x1337, oserial=0xDEADBEEF, mult=3, transport=0xA3,
                  cpath=[('port', 1, 0), ('class', 2), ('instance', 1)])
        cmb = c01.model_enc(11, 0, [K.fo_tree(fo, K.ncp_model(False, fo['ot'][2]), K.ncp_model(False, fo['to'][2]), False)])[0]
        pay = struct.pack('<IHHHHHH', 0, 8, 2, 0, 0, 0xB2, len(cmb)) + cmb
        s.sendall(struct.pack('<HHII8sI', 0x6F, len(pay), sess, 0, b'reffwdop', 0) + pay)
        rb = recv_frame(s)
        if rb is None or rb[8:12] != b'\0\0\0\0' or rb[0] != 0x6F:
            return [dict(step='Forward Open', reply=(rb or b'').hex())]
        body = rb[24 + 16:]
        d = c01.model_dec(11, 0, [body])[0]
        if d is None or d[0][0] != 0xD4:
            return [dict(step='Forward Open', problem='reply not accepted by the reference Connection Manager decoder', reply=body.hex())]
        nums = d[0][1][1][1][0]
        ot_id = nums[0]
        if nums[1] != fo['to'][0] or nums[2] != fo['serial'] or nums[3] != fo['vendor'] or nums[4] != fo['oserial']:
            problems.append(dict(step='Forward Open', problem='reply does not echo T->O id / serial / vendor / originator serial', fields=list(nums)))
        # a cross-type write whose FIRST values fit the tag and a later one does not: refused with 0xFF / 0x2107, and nothing of it stored
        spec['T'][0:3] = [0, 0, 0]
        pre = dict(svc=77, path=[('sym', b'T'), ('element', 0)], status=None, nums=[196, 3], data=('z', [0, 0, 0]))
        bad = dict(svc=77, path=[('sym', b'T'), ('element', 0)], status=None, nums=[200, 3], data=('z', [7, 8, 0xFFFFFFFF]))
        chk = dict(svc=76, path=[('sym', b'T'), ('element', 0)], status=None, nums=[3], data=('z', []))
        for k, (msg, want_st) in enumerate(((pre, (0, [])), (bad, (0xFF, [0x2107])), (chk, (0, [])))):
            f = dict(cmd=112, session=sess, status=0, ctx=b'\0' * 8, options=0, nums=[0, 0],
                     cpf=[dict(tid=161, num=ot_id), dict(tid=177, num=900 + k, msg=dict(kind='bare', msg=msg))])
            s.sendall(enc_frame(f))
            r = dec_frame(recv_frame(s) or b'')
            m = ((r or {}).get('cpf') or [{}, {}])[1].get('msg', {}).get('msg', {}) if r else {}
            if not r or m.get('status') != want_st:
                problems.append(dict(step='refused cross-type write', request=repr(msg)[:160], got=repr(m.get('status')), expected=repr(want_st))); break
            if k == 2 and list(m['data'][1]) != [0, 0, 0]:
                problems.append(dict(step='refused cross-type write', problem='a Write Tag refused with 0xFF/0x2107 left values behind: T[0..2] = %r' % (list(m['data'][1]),)))
        for seq in seqs:
            name = rng.choice(['T', 'S', 'B']); ty, n = TAGS[name]
            i = rng.randrange(min(n, 40))
            if rng.random() < 0.5:
                cnt = rng.randrange(1, min(n - i, 12) + 1)
                vals = [rand_val(rng, ty) for _ in range(cnt)]
                msg = dict(svc=77, path=[('sym', name.encode()), ('element', i)], status=None, nums=[TYCODE[ty], cnt], data=('z', vals))
                spec[name][i:i + cnt] = vals
                want = dict(svc=0xCD, status=(0, []))
            else:
                cnt = rng.randrange(1, min(n - i, 12) + 1)
                msg = dict(svc=76, path=[('sym', name.encode()), ('element', i)], status=None, nums=[cnt], data=('z', []))
                want = dict(svc=0xCC, status=(0, []), values=list(spec[name][i:i + cnt]), ty=TYCODE[ty])
            f = dict(cmd=112, session=sess, status=0, ctx=b'\0' * 8, options=0, nums=[0, 0],
                     cpf=[dict(tid=161, num=ot_id), dict(tid=177, num=seq, msg=dict(kind='bare', msg=msg))])
            s.sendall(enc_frame(f))
            rb = recv_frame(s)
            if rb is None:
                problems.append(dict(step='SendUnitData', sequence=seq, problem='connection closed without a reply')); break
            r = dec_frame(rb)
            w = dict(step='SendUnitData', sequence=seq, request=repr(msg)[:200], reply=rb.hex()[:200])
            if r is None:
                problems.append(dict(w, problem='reply not accepted by the reference decoder')); break
            if r['cmd'] != 112 or r['status'] != 0 or r['session'] != sess or not r['cpf'] or len(r['cpf']) != 2:
                problems.append(dict(w, problem='not a SendUnitData reply of this session: %r' % ({k: r[k] for k in ('cmd', 'status', 'session')},))); break
            it0, it1 = r['cpf']
            m = (it1.get('msg') or {}).get('msg') or {}
            if it0['tid'] != 161 or it1['tid'] != 177 or it1['num'] != seq:
                problems.append(dict(w, problem='sequence count %r echoed as %r' % (seq, it1.get('num')))); break
            if m.get('svc') != want['svc'] or m.get('status') != want['status']:
                problems.append(dict(w, problem='reply service / status %r %r' % (m.get('svc'), m.get('status')))); break
            if 'values' in want and (m.get('nums') != [want['ty']] or list(m['data'][1]) != want['values']):
                problems.append(dict(w, problem='values %r differ from the array model %r' % (m.get('data'), want['values']))); break
        # Forward Close, then Unregister
        fc = [78, [[[K.seg_tree(sg) for sg in fo['path']]], [[], [[10, 5, fo['serial'], fo['vendor'], fo['oserial']],
                                                                   [[[K.seg_tree(sg) for sg in fo['cpath']]], []]]]]]
        fcb = c01.model_enc(11, 0, [fc])[0]
        if isinstance(fcb, bytes) and not problems:
            pay = struct.pack('<IHHHHHH', 0, 8, 2, 0, 0, 0xB2, len(fcb)) + fcb
            s.sendall(struct.pack('<HHII8sI', 0x6F, len(pay), sess, 0, b'reffwdcl', 0) + pay)
            rb = recv_frame(s)
            d = c01.model_dec(11, 0, [rb[24 + 16:]])[0] if rb else None
            if d is None or d[0][0] != 0xCE:
                problems.append(dict(step='Forward Close', problem='reply not accepted by the reference decoder', reply=(rb or b'').hex()[:200]))
        s.sendall(enc_frame(dict(cmd=102, session=sess, status=0, ctx=b'refunreg', options=0, nums=[])))
        s.settimeout(2)
        try:
            tail = s.recv(64)
        except socket.timeout:
            tail = b'timeout'
        if tail:
            problems.append(dict(step='Unregister', problem='expected the session to end without a reply', got=repr(tail)[:60]))
    finally:
        s.close()
    return problems


# ---------------------------------------------------------------- (c) connected sessions in-process vs Model.Connected
CTAGS = [dict(name='T', ty='DINT', scalar=False, n=6, addr=None, init=[('i', 0)] * 6),
         dict(name='S', ty='INT', scalar=False, n=4, addr=None, init=[('i', 1), ('i', 2), ('i', 3), ('i', 4)])]


def connected_case(rng):
    """a history of Forward Opens, connected sends (known and unknown connection ids, any sequence count) and Forward Closes"""
    from props import logix_common as L
    steps = []
    nopen = 0
    for _ in range(rng.randrange(3, 10)):
        k = rng.random()
        if k < 0.2 or not nopen:
            nopen += 1
            steps.append(('open', 0x4000 + nopen, rng.choice([1, 2])))            # connection serial, parameter variant
        elif k < 0.85:
            which = rng.randrange(nopen) if rng.random() < 0.85 else -1              # -1: an id nobody opened
            seq = rng.choice([0, 1, 2, 0x7FFF, 0x8000, 0xFFFF, rng.randrange(65536)])
            name = rng.choice(['T', 'S']); n = 6 if name == 'T' else 4
            i = rng.randrange(n)
            if rng.random() < 0.5:
                cnt = rng.randrange(1, n - i + 1)
                r = ('write', ('sym', name, i), 196 if name == 'T' else 195, cnt, [('i', rng.randrange(-99, 99)) for _ in range(cnt)])
            elif rng.random() < 0.8:
                r = ('read', ('sym', name, i), rng.randrange(1, n - i + 1))
            else:
                r = ('read', ('sym', name, n - 1), 3)                                # out of range: CIP error reply
            steps.append(('send', which, seq, r))
        else:
            steps.append(('close', 0x4000 + rng.randrange(1, nopen + 1)))
    return steps


def connected_impl(steps):
    """the real enip_srv_tcp + logix.process, one request at a time (the O->T id of a Forward Open is only known from its reply)"""
    from props import c01, c02, codec_common as K, logix_common as L, enip_common as E
    from cpppo.server.enip import logix, device, main
    from cpppo import dotdict
    from cpppo.server import network
    device.lookup_reset(); logix.setup_reset()
    im = L.Impl(488, CTAGS)
    obs = []
    ids = []

    def frames(conn):
        yield c01.model_enc(0, 0, [K.frame_tree(dict(cmd=101, session=0, status=0, ctx=b'c14reg__', options=0, nums=[1, 0]))])[0]
        sess = struct.unpack('<I', conn.sent[-1][4:8])[0]
        for st in steps:
            if st[0] == 'open':
                fo = dict(path=[('class', 6), ('instance', 1)], prio=10, ticks=5, ot=(0x20000002, 2000000, (500, 1, 0, 2, 0)),
                          to=(0x20000001 + st[1], 2000000 + st[2], (500, 1, 0, 2, 0)), serial=st[1], vendor=0x1337, oserial=0xDEADBEEF, mult=3,
                          transport=0xA3, cpath=[('port', 1, 0), ('class', 2), ('instance', 1)])
                cmb = c01.model_enc(11, 0, [K.fo_tree(fo, K.ncp_model(False, fo['ot'][2]), K.ncp_model(False, fo['to'][2]), False)])[0]
                pay = struct.pack('<IHHHHHH', 0, 8, 2, 0, 0, 0xB2, len(cmb)) + cmb
                yield struct.pack('<HHII8sI', 0x6F, len(pay), sess, 0, b'c14open_', 0) + pay
                rb = conn.sent[-1]
                d = c01.model_dec(11, 0, [rb[24 + 16:]])[0] if rb[8:12] == b'\0\0\0\0' else None
                if d is None or d[0][0] != 0xD4:
                    obs.append(('open-failed', rb.hex()[:80])); ids.append(None); continue
                ids.append(d[0][1][1][1][0][0])
                obs.append(('opened', ids[-1]))
            elif st[0] == 'send':
                _, which, seq, r = st
                cid = 0x0BADBEEF if which < 0 or ids[which] is None else ids[which]
                req = L.py_req(r)
                raw = bytes(logix.Logix.produce(dotdict(req)))
                f = dict(cmd=112, session=sess, status=0, ctx=b'\0' * 8, options=0, nums=[0, 0],
                         cpf=[dict(tid=161, num=cid), dict(tid=177, num=seq, msg=None, raw=b'')])
                # the connected data item carries the sequence count and the request bytes
                item = struct.pack('<H', seq) + raw
                pay = struct.pack('<IHHHHIHH', 0, 0, 2, 0xA1, 4, cid, 0xB1, len(item)) + item
                yield struct.pack('<HHII8sI', 0x70, len(pay), sess, 0, b'\0' * 8, 0) + pay
                rb = conn.sent[-1]
                if rb[8:12] != b'\0\0\0\0' or len(rb) < 24 + 22:
                    obs.append(('send-status', struct.unpack('<I', rb[8:12])[0])); return
                p = rb[24:]
                obs.append(('sent', cid, p[20] | (p[21] << 8), bytes(p[22:])))
            else:
                fc = [78, [[[K.seg_tree(sg) for sg in [('class', 6), ('instance', 1)]]], [[], [[10, 5, st[1], 0x1337, 0xDEADBEEF],
                                                                                            [[[K.seg_tree(sg) for sg in [('port', 1, 0), ('class', 2), ('instance', 1)]]], []]]]]]
                fcb = c01.model_enc(11, 0, [fc])[0]
                pay = struct.pack('<IHHHHHH', 0, 8, 2, 0, 0, 0xB2, len(fcb)) + fcb
                yield struct.pack('<HHII8sI', 0x6F, len(pay), sess, 0, b'c14close', 0) + pay
                rb = conn.sent[-1]
                obs.append(('closed', struct.unpack('<I', rb[8:12])[0], rb[24 + 16] if len(rb) > 40 else None))

    class Conn:
        def __init__(self):
            self.sent = []; self.closed = False; self.gen = frames(self)
        def recv(self, maxlen=4096):
            try:
                return next(self.gen)
            except StopIteration:
                return b''
        def send(self, b):
            self.sent.append(bytes(b)); return len(b)
        def close(self):
            self.closed = True
    conn = Conn()
    srv = dotdict(); srv.control = dotdict(latency=0.0, done=False, disable=False)
    saved = network.recv
    network.recv = lambda c, maxlen=4096, timeout=None: c.recv(maxlen)
    err = None
    try:
        try:
            main.enip_srv_tcp(conn, ('10.14.14.14', 41400), 'c14', logix.process, server=srv)
        except Exception as e:
            err = type(e).__name__
        image = L.hash_list(im.image())
    finally:
        network.recv = saved
        main.connections.pop('10_14_14_14_41400', None)
        im.close()
    return obs, ids, err, image


def connected_check(ctx, rng, n):
    from props import logix_common as L
    base = L.enc_case((488, CTAGS, []))
    store_enc = base[1:-1]
    names = {t['name'].lower(): i for i, t in enumerate(CTAGS)}
    cases, meta = [], []
    for _ in range(n):
        steps = connected_case(rng)
        obs, ids, err, image = connected_impl(steps)
        enc = list(store_enc) + [len(steps)]
        k = 0
        for st in steps:
            if st[0] == 'open':
                enc += [0, ids[k] if k < len(ids) and ids[k] is not None else 0, st[1], st[2]]; k += 1
            elif st[0] == 'send':
                cid = 0x0BADBEEF if st[1] < 0 or st[1] >= len(ids) or ids[st[1]] is None else ids[st[1]]
                enc += [1, cid, st[2]] + L.enc_req(st[3], names)
            else:
                enc += [2, st[1]]
        cases.append(enc); meta.append((steps, obs, ids, err, image))
    outs = core.run_model('connected', cases)
    ndis, first, nbad = 0, None, 0
    nsent = 0
    for (steps, obs, ids, err, image), o in zip(meta, outs):
        # decode the model's replies
        mobs = []; i = 0
        for st in steps:
            tag = o[i]
            if tag == 0:
                mobs.append(('opened', o[i + 1])); i += 2
            elif tag == 1:
                mobs.append(('open-failed',)); i += 1
            elif tag == 2:
                ln = o[i + 2]; mobs.append(('sent', None, o[i + 1], bytes(o[i + 3:i + 3 + ln]))); i += 3 + ln
            elif tag == 3:
                mobs.append(('sent', None, o[i + 1], None)); i += 2
            else:
                mobs.append(('closed', 0, 0xCE)); i += 1
        mhash = o[i]
        w = dict(history=[(s[0],) + tuple(s[1:3]) + ((L.describe_req(s[3]),) if s[0] == 'send' else ()) for s in steps], observed=[repr(x)[:80] for x in obs], error=err)
        # the property on the implementation: sequence echoed, reply service = request | 0x80
        sends = [s for s in steps if s[0] == 'send']
        got_sends = [x for x in obs if x[0] == 'sent']
        for s, g in zip(sends, got_sends):
            if g[2] != s[2]:
                nbad += 1
                ctx.violation(dict(w, sequence_sent=s[2], sequence_echoed=g[2]), 'a connected reply does not echo its request\'s sequence count'); break
        else:
            if len(got_sends) != len(sends) or err:
                nbad += 1
                if nbad <= 3:
                    ctx.violation(w, 'a connected request was not answered (%d of %d, %s)' % (len(got_sends), len(sends), err))
                continue
            canon = [('sent', None, x[2], x[3]) if x[0] == 'sent' else x for x in obs]
            if canon != mobs or image != mhash:
                ndis += 1
                first = first or dict(w, model=[repr(x)[:80] for x in mobs], store_equal=image == mhash)
            else:
                nsent += len(sends)
    return ndis, first, nbad, nsent


def run(ctx):
    import logging
    logging.getLogger().setLevel(logging.CRITICAL + 10)
    core.import_cpppo()
    from props import enip_common as E
    E.quiet()
    ctx.prove()
    rng = ctx.rng
    cov = ctx.coverage
    nbad = 0
    proc, port = start_simulator()
    nops = 0
    try:
        spec = {k: [0.0 if v[0] == 'REAL' else 0] * v[1] for k, v in TAGS.items()}
        for seq_start, steps in ((None, 120 if not ctx.thorough else 600), (0x7FF0, 60), (0xFFF0, 60)):
            pr = pylogix_history(port, rng, steps, spec, seq_start)
            nops += steps + len(TAGS)
            for pm in pr[:3]:
                nbad += 1
                ctx.violation(dict(client='pylogix', connection_sequence_counter_start=seq_start, **pm),
                              'pylogix obtained something other than the array model\'s value / documented status')
            if pr:
                break
        import threading
        box = []
        th = threading.Thread(target=lambda: box.append(pylogix_scalars_and_big(port, rng, spec)), daemon=True)
        th.start(); th.join(120)
        if th.is_alive():
            box.append([dict(operation='scalar tags / Read BIG[0] x 16600', problem='the client did not finish within 120 s (the transfer does not terminate)')])
        for pm in box[0][:3]:
            nbad += 1
            ctx.violation(dict(client='pylogix', **pm), 'pylogix obtained something other than the array model\'s value / documented status')
        nops += 30
        for pm in forward_open_sizes(port)[:3]:
            nbad += 1
            ctx.violation(dict(client='reference encoder', **pm), 'Forward Open at a boundary connection size is not answered with success')
        nops += 6
        seqs = [1, 2, 3, 0x7FFE, 0x7FFF, 0x8000, 0x8001, 0xFFFE, 0xFFFF, 0, 1] + [rng.randrange(0, 65536) for _ in range(40 if ctx.thorough else 12)]
        pr = raw_client(port, rng, spec, seqs)
        nops += len(seqs) + 4
        for pm in pr[:3]:
            nbad += 1
            ctx.violation(dict(client='reference codec client', **pm), 'a request encoded from the specification tables was not answered as the reference decoder / array model require')
        # what the raw client wrote must be what pylogix reads
        if not pr:
            pr2 = pylogix_history(port, rng, 0, spec)
            for pm in pr2[:2]:
                nbad += 1
                ctx.violation(dict(client='pylogix after the reference client', **pm), 'the two independent clients disagree about the tag values')
    finally:
        proc.terminate()
        try:
            proc.wait(5)
        except Exception:
            proc.kill()
    cdis, cfirst, cbad, csent = connected_check(ctx, rng, 150 if ctx.thorough else 40)
    nbad += cbad
    nops += csent
    if cdis and not cbad:
        ctx.unresolved('correspondence Forward Open / SendUnitData / Forward Close through logix.process = Model.Connected.crun', cfirst)
    elif cdis:
        ctx.broken.append('correspondence connected sessions = Model.Connected.crun')
        ctx.notes.append(repr(cfirst)[:1500])
    cov['evaluations'] = nops
    cov['distinct_nontrivial'] = nops
    cov['exhaustive'] = False
    cov['rule'] = ('one simulator subprocess with DINT[300], INT[250], SINT[8], REAL[5]; pylogix histories of %s operations (single / counted reads incl. 121-123, 244, 250 element '
                   'arrays, multi-reads, single and array writes with boundary values, out-of-range and unknown tags) with a final whole-array sweep, again with the connection '
                   'sequence counter started at 0x7FF0 and at 0xFFF0; a raw client built from the reference encoder/decoder: Register, Forward Open, %d connected reads/writes with '
                   'sequence counts 1,2,3,0x7FFE..0x8001,0xFFFE,0xFFFF,0,1 and random ones, Forward Close, Unregister; then pylogix re-reads what the raw client wrote; in-process: generated connected histories (several Forward Opens, sends on known and unknown connection ids with boundary sequence counts, Forward Closes) through enip_srv_tcp + logix.process against Model.Connected.crun'
                   % ('600+60+60' if ctx.thorough else '120+60+60', len(seqs)))
    cov['impl_model_disagreements'] = cdis
    cov['impl_property_failures'] = nbad
    ctx.sample(dict(tags=TAGS))
    ctx.assumptions += ['pylogix 1.1.6 as installed is the independent client; its status strings (Success / Path destination unknown / Unknown error 255) are taken as the documented statuses',
                        'interoperation is observed at run time; the theorems cover the connected-session logic and the reference codec only']


def replay(ctx, rep):
    print(rep.get('what'), rep.get('witness'))
    return 1
