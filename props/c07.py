"""C07 — a Multiple Service Packet is equivalent to its requests issued one by one.
Theorems: coq/Properties/C07.v over coq/Model/Logix.v.  Tie: correspondence (props/logix_common.py);
oracle: the same members as one bundle and one by one on two identically configured simulators."""
from props import logix_common as L
import struct


def gen(ctx):
    n = 2000 if ctx.thorough else 220
    cases = []
    for _ in range(n):
        tags = L.gen_tags(ctx.rng, maxlen=16)
        addrs = L.layout(tags)
        hist = []
        for _ in range(ctx.rng.randint(1, 4)):
            members = [L.gen_req(ctx.rng, tags, addrs, valid_bias=0.6) for _ in range(ctx.rng.randint(1, 9))]
            hist.append(('multi', members))
            if ctx.rng.random() < 0.3:
                hist.append(L.gen_req(ctx.rng, tags, addrs))
        # the same read twice in one bundle with a write to that tag between them (byte-identical members must still be answered
        # one after the other); own sub-stream: the generator state is put back so the cases above stay what they were
        st = ctx.rng.getstate()
        k = ctx.rng.randrange(len(tags))
        t = tags[k]
        cnt = min(t['n'], ctx.rng.randint(1, 4))
        p = L.gen_path(ctx.rng, tags, addrs, k, None)
        rd = ctx.rng.choice([('readf', p, cnt, 0), ('read', p, cnt), ('readf', p, cnt, 0)])
        wr = ('write', p, L.TY[t['ty']], cnt, [L.rand_val(ctx.rng, t['ty']) for _ in range(cnt)])
        hist.append(('multi', [rd, wr, rd] + ([wr, rd] if ctx.rng.random() < 0.3 else [])))
        ctx.rng.setstate(st)
        cases.append((ctx.rng.choice([488, 16, 24, 100]), tags, hist))
    return cases


def bundle_vs_single(case):
    """Oracle on the implementation alone: replace every bundle by its members issued one by one."""
    maxb, tags, reqs = case
    flat = []
    for r in reqs:
        flat += r[1] if r[0] == 'multi' else [r]
    (obs_b, img_b), (obs_s, img_s) = L.run_impl(case), L.run_impl((maxb, tags, flat))
    singles = iter(obs_s)
    for ri, (r, (b, _)) in enumerate(zip(reqs, obs_b)):
        if r[0] != 'multi':
            s = next(singles)[0]
            if s != b:
                return ri, 'single request answered %r after bundles but %r after the same requests issued singly' % (L.fmt_obs((b, 0))[0], L.fmt_obs((s, 0))[0])
            continue
        if b is None:
            return ri, 'bundle raised'
        sp = L.split_bundle(b)
        if sp is None:
            return ri, 'bundle status %s' % b[:4].hex()
        parts, offs = sp
        if len(parts) != len(r[1]):
            return ri, 'bundle reply has %d members for %d requests' % (len(parts), len(r[1]))
        n = len(parts)
        pos = 2 + 2 * n
        for j, (pb, o) in enumerate(zip(parts, offs)):
            if o != pos:
                return ri, 'offset[%d] = %d, expected %d (2+2N plus lengths of previous members)' % (j, o, pos)
            pos += len(pb)
            s = next(singles)[0]
            if s is None or bytes(pb) != s:
                return ri, 'member %d answered %s inside the bundle but %s when issued alone' % (j, bytes(pb).hex(), s.hex() if s else 'EXC')
    if img_b != img_s:
        return len(reqs), 'final tag contents differ between bundled and one-by-one execution'
    return None


def _frame(cip, ctx8=b'bundle\0\0', session=0x1234):
    import struct
    pay = struct.pack('<IHHHHHH', 0, 0, 2, 0, 0, 0xb2, len(cip)) + bytes(cip)
    return struct.pack('<HHII', 0x6f, len(pay), session, 0) + ctx8 + struct.pack('<I', 0) + pay


def client_view(frames):
    """What cpppo's own client hands its caller for a stream of SendRRData reply frames: [(status, value)] per reply, in
    order, through connector.collect (the client-side unbundling).  A throw-away local server replays the frames."""
    import socket, struct, threading
    from cpppo.server.enip import client
    ls = socket.socket(); ls.bind(('127.0.0.1', 0)); ls.listen(1)
    port = ls.getsockname()[1]

    def serve():
        c, _ = ls.accept()
        try:
            got = b''
            while len(got) < 28:
                d = c.recv(28 - len(got))
                if not d:
                    return
                got += d
            c.sendall(struct.pack('<HHII', 0x65, 4, 0x1234, 0) + got[12:20] + struct.pack('<IHH', 0, 1, 0) + b''.join(frames))
            c.shutdown(socket.SHUT_WR)
            c.settimeout(5)
            while c.recv(4096):
                pass
        except OSError:
            pass
        finally:
            c.close()
    t = threading.Thread(target=serve, daemon=True); t.start()
    out = []
    try:
        conn = client.connector(host='127.0.0.1', port=port, timeout=5)
        try:
            with conn:
                for _, rpy, sts, val in conn.collect(timeout=5):
                    out.append((sts if isinstance(sts, int) else (sts[0], list(sts[1])),
                                [repr(x) for x in val] if hasattr(val, '__iter__') and not isinstance(val, (str, bytes)) else val))
        finally:
            conn.close()
    finally:
        ls.close(); t.join(5)
    return out


def client_unbundling(case):
    """Second oracle, on the client half of the library: the results connector.collect yields for a bundle reply are the
    results it yields for the members' replies received one frame each."""
    maxb, tags, reqs = case
    flat = []
    for r in reqs:
        flat += r[1] if r[0] == 'multi' else [r]
    (obs_b, _), (obs_s, _) = L.run_impl(case), L.run_impl((maxb, tags, flat))
    if any(b is None for b, _ in obs_b) or any(s is None for s, _ in obs_s):
        return None
    if any(r[0] == 'multi' and L.split_bundle(b) is None for r, (b, _) in zip(reqs, obs_b)):
        return None
    try:
        vb = client_view([_frame(b) for b, _ in obs_b])
        vs = client_view([_frame(s) for s, _ in obs_s])
    except Exception as e:
        return 0, 'the client could not unbundle the replies: %s %s' % (type(e).__name__, str(e)[:200])
    if vb != vs:
        k = next((i for i, (x, y) in enumerate(zip(vb, vs)) if x != y), min(len(vb), len(vs)))
        return k, ('client result %d is %r when the replies arrive in bundles but %r when they arrive one per frame (%d vs %d results)'
                   % (k, vb[k] if k < len(vb) else None, vs[k] if k < len(vs) else None, len(vb), len(vs)))
    return None


STD_ATTRS = [(1, 1, a) for a in range(1, 8)] + [(0xF5, 1, a) for a in (1, 2, 3, 4, 6)] + [(2, 1, 1), (0xAC, 1, 1), (0xAC, 1, 3), (0x77, 1, 1), (1, 1, 99)]


def gen_std(ctx):
    """Bundles that also address the simulator's standard (non-tag) objects - Identity, TCP/IP, Logical Segments -
    judged by the bundle-vs-single oracle only (those objects are not part of the tag-store model)."""
    n = 600 if ctx.thorough else 70
    cases = []
    for _ in range(n):
        tags = L.gen_tags(ctx.rng, maxlen=8)
        addrs = L.layout(tags)
        members = []
        for _ in range(ctx.rng.randint(2, 8)):
            if ctx.rng.random() < 0.4:
                c, i, a = ctx.rng.choice(STD_ATTRS)
                members.append(('get', ('num', c, i, a, None)))
            else:
                members.append(L.gen_req(ctx.rng, tags, addrs, valid_bias=0.7))
        cases.append((488, tags, [('multi', members)]))
    return cases


def session_level(ctx):
    """Through the whole simulator session (enip_srv_tcp -> UCMM -> Connection Manager dispatch -> Message Router): the members of a
    bundle sent as one SendRRData frame, against the same requests sent one SendRRData frame each.  -> number of comparisons"""
    from props import c06, enip_common as E
    rng = ctx.rng
    n = 0
    for i in range(60 if ctx.thorough else 14):
        reqs = []
        while len(reqs) < rng.randrange(2, 6):
            r = c06.gen_cip(rng)
            if r[0] != 'multi' and not c06.noobj(r) and not (r[0] == 'readf' and len(reqs) == 0 and False):
                reqs.append(r)
        if i % 3 == 0:
            reqs.insert(rng.randrange(len(reqs) + 1), ('read', ('sym', rng.choice(['nosuch', 'Tx']), rng.choice([None, 3, 0])), 1))
        env = lambda k: (0x1234, struct.pack('<Q', k), 0)
        sb = [(('register',),) + env(0), (('send', None, ('multi', reqs)),) + env(1)]
        ss = [(('register',),) + env(0)] + [(('send', None, r),) + env(k + 1) for k, r in enumerate(reqs)]
        rb, eb, ib = c06.run_impl(None, [c06.frame_of(*x) for x in sb], whole=True)
        rs, es, is_ = c06.run_impl(None, [c06.frame_of(*x) for x in ss], whole=True)
        w = dict(requests=[L.describe_req(r) for r in reqs], bundled_replies=[x.hex() for x in rb], single_replies=[x.hex() for x in rs])
        n += 1
        pb = c06.parse_reply(rb[1]) if len(rb) == 2 else None
        cip = E.unwrap_send_data(pb[5]) if pb and pb[2] == 0 else None
        parts = L.split_bundle(cip) if cip else None
        if parts is None:
            ctx.violation(w, 'the bundle sent on a session is not answered by one well-formed bundle reply'); break
        singles = []
        for x in rs[1:]:
            p = c06.parse_reply(x)
            singles.append(E.unwrap_send_data(p[5]) if p and p[2] == 0 else None)
        if len(singles) != len(reqs) or any(a is None or bytes(a) != bytes(b) for a, b in zip(singles, parts[0])) or ib != is_:
            k = next((j for j, (a, b) in enumerate(zip(singles, parts[0])) if a is None or bytes(a) != bytes(b)), min(len(singles), len(parts[0])))
            ctx.violation(dict(w, at_request=k, tags_equal=ib == is_),
                          'on a simulator session, request #%d sent alone is answered differently from the same request inside a bundle' % k); break
    return n


def run(ctx):
    ctx.prove()
    import struct
    ctx.coverage['bundle_vs_single_frames_on_a_simulator_session'] = session_level(ctx)
    nstd = 0
    for c in gen_std(ctx):
        nstd += 1
        res = bundle_vs_single(c)
        if res is not None:
            ctx.violation(dict(case=L.describe_case(c), at_request=res[0]), res[1])
            break
    ctx.coverage['oracle_only_bundles_with_standard_objects'] = nstd
    # the same equality at the logging levels the simulator is run with (-v, -vv, -vvv: what is logged must not change what is answered)
    import logging
    nlog = 0
    for lv, c in zip([logging.DETAIL, logging.INFO, logging.DEBUG] * 2, gen_std(ctx)):
        saved = []
        for name in ('enip.dev', 'enip.lgx', 'enip.srv', 'enip.cli'):
            lg = logging.getLogger(name)
            saved.append((lg, lg.level, lg.propagate, list(lg.handlers)))
            lg.setLevel(lv); lg.propagate = False; lg.handlers = [logging.NullHandler()]
        try:
            res = bundle_vs_single(c)
        finally:
            for lg, level, prop, hs in saved:
                lg.setLevel(level); lg.propagate = prop; lg.handlers = hs
        nlog += 1
        if res is not None:
            ctx.violation(dict(case=L.describe_case(c), at_request=res[0], logging_level=logging.getLevelName(lv)), res[1] + ' (with logging enabled)')
            break
    ctx.coverage['bundles_with_logging_enabled'] = nlog
    ncli = 0
    from props import enip_common as E
    E.quiet()
    for c in gen(ctx)[:(300 if ctx.thorough else 60)]:
        ncli += 1
        res = client_unbundling(c)
        if res is not None:
            ctx.violation(dict(case=L.describe_case(c), at_result=res[0], layer='client.connector.collect'), res[1])
            break
    ctx.coverage['client_unbundling_histories'] = ncli
    # a bundle whose members and replies pass 32 KiB (offsets need all 16 bits): 90 full-size Read Tag Fragmented members
    big_tags = [dict(name='BIG', ty='DINT', scalar=False, n=200, addr=None, init=[('i', k * 3 - 7) for k in range(200)]),
                dict(name='W', ty='INT', scalar=False, n=4, addr=None, init=[('i', 0)] * 4)]
    members = [('readf', ('sym', 'BIG', (k * 7) % 60), 121, 0) for k in range(88)] + [('writef', ('sym', 'W', 0), 195, 2, 0, [('i', 5), ('i', 6)]), ('read', ('sym', 'W', None), 4)]
    res = bundle_vs_single((488, big_tags, [('multi', members)]))
    if res is not None:
        ctx.violation(dict(case='one bundle of 90 members, about 43 kB of replies', at_request=res[0]), res[1])
    ctx.coverage['big_bundle_members'] = len(members)
    # the client's encoding of a bundle: whatever request objects the connector builds (read / write / attribute services / generic service
    # codes with and without a data payload), the Multiple Service Packet carries each member exactly as that member is encoded when sent alone
    import copy, struct
    from cpppo import dotdict
    from cpppo.server.enip import client as C, logix as LG
    nenc = 0
    for _ in range(200 if ctx.thorough else 50):
        reqs = []
        for _k in range(ctx.rng.randrange(1, 7)):
            kind = ctx.rng.randrange(6)
            if kind == 0:
                reqs.append(C.connector.read(None, path='T[%d]' % ctx.rng.randrange(4), elements=ctx.rng.randrange(1, 4), send=False))
            elif kind == 1:
                n = ctx.rng.randrange(1, 4)
                reqs.append(C.connector.write(None, path='T[0]', data=[ctx.rng.randrange(-9, 9) for _ in range(n)], elements=n, tag_type=196, send=False))
            elif kind == 2:
                reqs.append(C.connector.service_code(None, code=ctx.rng.choice([0x01, 0x0E, 0x4B]), path='@%d/1/%d' % (ctx.rng.choice([1, 2, 0x99]), ctx.rng.randrange(1, 5)), send=False))
            elif kind == 3:
                data = [ctx.rng.getrandbits(8) for _ in range(ctx.rng.choice([1, 2, 3, 4, 7]))]
                reqs.append(C.connector.service_code(None, code=0x10, path='@0x99/1/%d' % ctx.rng.randrange(1, 4), data=data, send=False))
            elif kind == 4:
                reqs.append(C.connector.get_attribute_single(None, path='@0x99/1/2', send=False))
            else:
                reqs.append(C.connector.set_attribute_single(None, path='@0x99/1/2', data=[ctx.rng.getrandbits(8) for _ in range(4)], elements=4, send=False))
        try:
            singles = [bytes(LG.Logix.produce(copy.deepcopy(r))) for r in reqs]
            m = dotdict(service=0x0A, path={'segment': [dotdict({'class': 2}), dotdict({'instance': 1})]})
            m.multiple = dotdict(request=[copy.deepcopy(r) for r in reqs])
            got = bytes(LG.Logix.produce(m))
        except Exception as e:
            ctx.violation(dict(members=[repr(dict(r))[:120] for r in reqs], error=type(e).__name__), 'the client could not encode a bundle of requests it can encode singly'); break
        nenc += 1
        offs, pos = [], 2 + 2 * len(singles)
        for sb in singles:
            offs.append(pos); pos += len(sb)
        want = bytes([0x0A, 0x02, 0x20, 0x02, 0x24, 0x01]) + struct.pack('<H', len(singles)) + b''.join(struct.pack('<H', o) for o in offs) + b''.join(singles)
        if got != want:
            ctx.violation(dict(members=[sb.hex() for sb in singles], bundle=got.hex(), expected=want.hex()),
                          'a bundled request is not the offset table followed by each member as it is encoded when sent alone'); break
    ctx.coverage['client_bundle_encodings'] = nenc
    # ... and which members share a bundle: connector.issue (its network calls replaced by a recorder) must send every operation inside a
    # bundle that carries that operation's own route path and send path, for every list length and size limit
    class Probe(C.connector):
        def __init__(self):
            self.sent = []
        def multiple(self, request, route_path=None, send_path=None, **kw):
            self.sent.append((len(request), route_path, send_path))
            return dotdict(multiple=dotdict(request=list(request)))
    nplans = 0
    routes = [None, [{'port': 1, 'link': 5}], [{'port': 2, 'link': '1.2.3.4'}]]
    for nops in range(1, 15):
        for mult in (120, 200, 500):
            r0 = ctx.rng.choice(routes[1:]); sp = ctx.rng.choice([None, '@2/1'])
            ops = []
            for k in range(nops):
                r = r0 if ctx.rng.random() < 0.8 else ctx.rng.choice(routes)
                op = dict(path=[{'symbolic': 'T'}, {'element': k % 4}], elements=1, method='read') if k % 3 else dict(path=[{'symbolic': 'T'}, {'element': 0}], elements=2, tag_type=196, data=[k, k + 1], method='write')
                if r is not None:
                    op['route_path'] = r
                if sp is not None:
                    op['send_path'] = sp
                ops.append(op)
            pr = Probe()
            try:
                issued = list(pr.issue([dict(o) for o in ops], multiple=mult))
            except Exception as e:
                ctx.violation(dict(operations=nops, multiple=mult, error=type(e).__name__), 'connector.issue raised while bundling'); break
            nplans += 1
            k = 0
            okay = len(issued) == nops and sum(n for n, _, _ in pr.sent) == nops
            for n, rp, spth in pr.sent:
                for o in ops[k:k + n]:
                    if o.get('route_path') != rp or o.get('send_path') != spth:
                        okay = False
                k += n
            if not okay:
                ctx.violation(dict(operations=[(o.get('route_path'), o.get('send_path')) for o in ops], multiple=mult, bundles_sent=pr.sent),
                              'a bundle was sent with a route / send path other than that of the operations in it (or operations were lost)'); break
    ctx.coverage['client_bundling_plans'] = nplans
    # the members of a bundle are decoded by closures deferred through the parser's post-processing list: with several sessions parsing
    # bundles at once each closure must be run by the thread that registered it (the real dfa_post under generated interleavings, as in C09)
    from props import c09
    from vlib import core
    trees = [c09.gen_events(ctx.rng) for _ in range(300 if ctx.thorough else 80)]
    outs = core.run_model('concurrent', [[0, len(t)] + c09.enc_events(t) for t in trees])
    for t, o in zip(trees, outs):
        try:
            log = c09.run_events_impl(t)
        except Exception as e:
            log = 'EXC %s' % type(e).__name__
        mlog = [(o[1 + 2 * i], o[2 + 2 * i]) for i in range(o[0])]
        if log != mlog:
            ctx.violation(dict(events=t, closures_run=log, expected=mlog),
                          'a bundle-decoding closure was run by another session\'s thread, out of order, twice or not at all (that session\'s bundle loses its members)')
            break
    ctx.coverage['closure_interleavings'] = len(trees)
    L.logix_check(ctx, 'C07', gen(ctx), extra_oracle=bundle_vs_single,
                  rule='seeded histories of 1-4 bundles (1-9 members mixing Read/Write Tag [Fragmented] and Get/Set Attribute Single, ~40% '
                       'invalid) interleaved with single requests, over random tag configurations; each history is also executed with every bundle '
                       'replaced by its members issued singly on a second identical simulator; distinct by request list',
                  nontrivial=lambda c: any(r[0] == 'multi' and len(r[1]) > 1 for r in c[2]))


def replay(ctx, rep):
    case = L.case_from_description(rep['witness']['case'])
    res = L.check_history(case, 'C07') or bundle_vs_single(case) or client_unbundling(case)
    print('property C07 on the implementation:', res or 'holds')
    return 1 if res else 0
