"""C07 — a Multiple Service Packet is equivalent to its requests issued one by one.
Theorems: coq/Properties/C07.v over coq/Model/Logix.v.  Tie: correspondence (props/logix_common.py);
oracle: the same members as one bundle and one by one on two identically configured simulators."""
from props import logix_common as L


def gen(ctx):
    n = 2000 if ctx.thorough else 220
    cases = []
    for _ in range(n):
        tags = L.gen_tags(ctx.rng, maxlen=16)
        addrs = L.layout(tags)
        hist = []
        for _ in range(ctx.rng.randint(1, 4)):
            members = [L.gen_req(ctx.rng, tags, addrs, valid_bias=0.6) for _ in range(ctx.rng.randint(1, 9))]
            hist.append(('multi', members))
            if ctx.rng.random() < 0.3:
                hist.append(L.gen_req(ctx.rng, tags, addrs))
        cases.append((ctx.rng.choice([488, 16, 24, 100]), tags, hist))
    return cases


def bundle_vs_single(case):
    """Oracle on the implementation alone: replace every bundle by its members issued one by one."""
    maxb, tags, reqs = case
    flat = []
    for r in reqs:
        flat += r[1] if r[0] == 'multi' else [r]
    (obs_b, img_b), (obs_s, img_s) = L.run_impl(case), L.run_impl((maxb, tags, flat))
    singles = iter(obs_s)
    for ri, (r, (b, _)) in enumerate(zip(reqs, obs_b)):
        if r[0] != 'multi':
            s = next(singles)[0]
            if s != b:
                return ri, 'single request answered %r after bundles but %r after the same requests issued singly' % (L.fmt_obs((b, 0))[0], L.fmt_obs((s, 0))[0])
            continue
        if b is None:
            return ri, 'bundle raised'
        sp = L.split_bundle(b)
        if sp is None:
            return ri, 'bundle status %s' % b[:4].hex()
        parts, offs = sp
        if len(parts) != len(r[1]):
            return ri, 'bundle reply has %d members for %d requests' % (len(parts), len(r[1]))
        n = len(parts)
        pos = 2 + 2 * n
        for j, (pb, o) in enumerate(zip(parts, offs)):
            if o != pos:
                return ri, 'offset[%d] = %d, expected %d (2+2N plus lengths of previous members)' % (j, o, pos)
            pos += len(pb)
            s = next(singles)[0]
            if s is None or bytes(pb) != s:
                return ri, 'member %d answered %s inside the bundle but %s when issued alone' % (j, bytes(pb).hex(), s.hex() if s else 'EXC')
    if img_b != img_s:
        return len(reqs), 'final tag contents differ between bundled and one-by-one execution'
    return None


STD_ATTRS = [(1, 1, a) for a in range(1, 8)] + [(0xF5, 1, a) for a in (1, 2, 3, 4, 6)] + [(2, 1, 1), (0xAC, 1, 1), (0xAC, 1, 3), (0x77, 1, 1), (1, 1, 99)]


def gen_std(ctx):
    """Bundles that also address the simulator's standard (non-tag) objects - Identity, TCP/IP, Logical Segments -
    judged by the bundle-vs-single oracle only (those objects are not part of the tag-store model)."""
    n = 600 if ctx.thorough else 70
    cases = []
    for _ in range(n):
        tags = L.gen_tags(ctx.rng, maxlen=8)
        addrs = L.layout(tags)
        members = []
        for _ in range(ctx.rng.randint(2, 8)):
            if ctx.rng.random() < 0.4:
                c, i, a = ctx.rng.choice(STD_ATTRS)
                members.append(('get', ('num', c, i, a, None)))
            else:
                members.append(L.gen_req(ctx.rng, tags, addrs, valid_bias=0.7))
        cases.append((488, tags, [('multi', members)]))
    return cases


def run(ctx):
    ctx.prove()
    nstd = 0
    for c in gen_std(ctx):
        nstd += 1
        res = bundle_vs_single(c)
        if res is not None:
            ctx.violation(dict(case=L.describe_case(c), at_request=res[0]), res[1])
            break
    ctx.coverage['oracle_only_bundles_with_standard_objects'] = nstd
    L.logix_check(ctx, 'C07', gen(ctx), extra_oracle=bundle_vs_single,
                  rule='seeded histories of 1-4 bundles (1-9 members mixing Read/Write Tag [Fragmented] and Get/Set Attribute Single, ~40% '
                       'invalid) interleaved with single requests, over random tag configurations; each history is also executed with every bundle '
                       'replaced by its members issued singly on a second identical simulator; distinct by request list',
                  nontrivial=lambda c: any(r[0] == 'multi' and len(r[1]) > 1 for r in c[2]))


def replay(ctx, rep):
    case = L.case_from_description(rep['witness']['case'])
    res = L.check_history(case, 'C07') or bundle_vs_single(case)
    print('property C07 on the implementation:', res or 'holds')
    return 1 if res else 0
