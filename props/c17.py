"""C17 — timestamps and durations survive render/parse; ordering matches the rendering.
Theorems: coq/Properties/C17.v over coq/Model/Times.v (exact arithmetic).
Tie (correspondence): timestamp.render / timestamp(text) / comparison operators / duration str + parse of the live
cpppo.history.times against the extracted model.  A float instant enters the model as its exact rational value; zone
tables are read by an independent TZif reader from the tzdata package the implementation's zoneinfo uses (only the
periods around the instant are passed); instants concentrate around every kind of daylight-saving transition, on
sub-millisecond fractions that round up, and on pairs one millisecond apart."""
import calendar, datetime, os, re, struct
from fractions import Fraction
from vlib import core

MINF = -10 ** 11


# ---------------------------------------------------------------- TZif
def tzif(zone):
    import zoneinfo
    path = None
    for d in zoneinfo.TZPATH:                       # the search zoneinfo itself performs: TZPATH first, then the tzdata package
        c = os.path.join(d, *zone.split('/'))
        if os.path.isfile(c):
            path = c; break
    if path is None:
        import tzdata
        path = os.path.join(os.path.dirname(tzdata.__file__), 'zoneinfo', *zone.split('/'))
    b = open(path, 'rb').read()
    def header(o):
        magic, ver, isut, isstd, leap, timecnt, typecnt, charcnt = struct.unpack('>4sc15x6l', b[o:o + 44])
        return ver, isut, isstd, leap, timecnt, typecnt, charcnt
    ver, isut, isstd, leap, timecnt, typecnt, charcnt = header(0)
    o = 44
    if ver >= b'2':
        o += timecnt * 4 + timecnt + typecnt * 6 + charcnt + leap * 8 + isstd + isut
        ver, isut, isstd, leap, timecnt, typecnt, charcnt = header(o)
        o += 44
        times = struct.unpack('>%dq' % timecnt, b[o:o + 8 * timecnt]); o += 8 * timecnt
    else:
        times = struct.unpack('>%dl' % timecnt, b[o:o + 4 * timecnt]); o += 4 * timecnt
    idx = struct.unpack('>%dB' % timecnt, b[o:o + timecnt]); o += timecnt
    types = [struct.unpack('>lBB', b[o + 6 * i:o + 6 * i + 6]) for i in range(typecnt)]
    footer = b[b.rfind(b'\n', 0, len(b) - 1) + 1:-1] if b.endswith(b'\n') else b''
    tzif.limit[zone] = (max(times) - 86400 if times else MINF) if b',' in footer else None   # beyond this the footer's rule applies
    # before the first transition: the first type (RFC 8536: time type 0)
    table = [(MINF, types[0][0], bool(types[0][1]))]
    for t, i in zip(times, idx):
        if t <= MINF:
            continue
        table.append((t, types[i][0], bool(types[i][1])))
    # merge periods that change nothing, keep strictly ascending
    out = []
    for e in table:
        if out and out[-1][1:] == e[1:]:
            continue
        out.append(e)
    return out


tzif.limit = {}


def window(table, t, span=4 * 86400):
    """the periods that matter for instants / wall-clock readings within span of t (first start pushed to -inf)"""
    keep = [i for i, e in enumerate(table) if (e[0] <= t + span) and (i + 1 == len(table) or table[i + 1][0] >= t - span)]
    sel = [table[i] for i in keep]
    sel[0] = (MINF,) + sel[0][1:]
    return sel


def enc_zone(tab):
    out = [len(tab)]
    for st, off, dst in tab:
        out += [st, off, int(dst)]
    return out


TEXT = re.compile(r'^(-?\d+)-(\d\d)-(\d\d) (\d\d):(\d\d):(\d\d)(?:\.(\d+))?(?: (\S+))?$')


def fields_of_text(s):
    m = TEXT.match(s)
    if not m:
        return None
    y, mo, d, h, mi, sec = (int(m.group(i)) for i in range(1, 7))
    return [y, mo, d, h, mi, sec], (int(m.group(7)) if m.group(7) else 0), m.group(8)


def all_zones():
    import zoneinfo
    return sorted(z for z in zoneinfo.available_timezones()
                  if not z.startswith(('posix', 'right', 'Etc/', 'SystemV')) and '/' in z)


def dur_text(o):
    y, w, d, h, m, kind = o[:6]
    s = ''.join('%d%s' % (v, u) for v, u in ((y, 'y'), (w, 'w'), (d, 'd'), (h, 'h'), (m, 'm')) if v)
    if kind == 0:
        sec, n = o[6], o[7]
        s += '%d.%ss' % (sec, ''.join(str(x) for x in o[8:8 + n]))
    else:
        hs, sv, hms, ms, hus, us = o[6:12]
        if hs:
            s += '%ds' % sv
        if hus:
            s += '%dus' % us
        elif hms:
            s += '%dms' % ms
        if not (hs or hms or hus) and not s:
            s = '0s'
    return s


def run(ctx):
    import warnings
    warnings.simplefilter('ignore')
    ctx.prove()
    from cpppo.history import times as T
    from cpppo.history.times import timestamp, duration
    rng = ctx.rng
    cov = ctx.coverage
    ndis, nbad, first = 0, 0, None

    def bad(w, what):
        nonlocal nbad
        nbad += 1
        if nbad <= 4:
            ctx.violation(w, what)

    def dis(d):
        nonlocal ndis, first
        ndis += 1
        first = first or d

    timestamp.support_abbreviations(None, reset=True)
    zones = all_zones()
    import zoneinfo
    avail = zoneinfo.available_timezones()
    pick = (zones + sorted(z for z in avail if z.startswith('Etc/GMT'))) if ctx.thorough else (['America/Edmonton', 'Europe/Berlin', 'Australia/Lord_Howe', 'America/St_Johns', 'Asia/Kolkata',
                                        'Pacific/Apia', 'America/Sao_Paulo', 'Africa/Casablanca', 'Asia/Tehran', 'Europe/London']
                                       + [z for z in ('Etc/GMT-14', 'Etc/GMT+5', 'Etc/GMT-1', 'Etc/GMT+12', 'GMT+0', 'Etc/GMT0', 'America/Argentina/ComodRivadavia', 'America/North_Dakota/New_Salem', 'Africa/Monrovia') if z in avail]      # names ending in digits / signs, three-level and underscored names
                                       + rng.sample(zones, 14))
    LO, HI = 31536000, 2082758400             # 1971 .. 2036: inside every zone file's explicit transition table
    insts = []                                # (zone, value, precision)
    tables = {}
    for z in pick:
        try:
            tab = tzif(z)
        except Exception:
            continue
        tables[z] = tab
        zhi = HI if tzif.limit.get(z) is None else min(HI, tzif.limit[z])
        trans = [e[0] for e in tab if LO < e[0] < zhi - 86400]
        if zhi <= LO + 86400:
            continue
        if not ctx.thorough:
            trans = trans[-4:] + rng.sample(trans, min(len(trans), 3))
        for t in trans:
            for dt in (-7200, -3601, -3600, -1800, -1, -0.0004, 0, 0.0005, 1, 1799, 1800, 3599.9996, 3600, 5400, 7200):
                insts.append((z, float(t + dt), 3))
            insts.append((z, t + rng.random() * 7200 - 3600, rng.randrange(0, 7)))
        for _ in range(6 if ctx.thorough else 3):
            insts.append((z, rng.uniform(LO, zhi), rng.randrange(0, 7)))
    tables['UTC'] = [(MINF, 0, False)]
    for v in (1399326141.999836, 1414915323.1225, 1414915323.1235, 1000000000.9995, 1000000000.99949999, 1.5e9 + 0.0005, 1.5e9 + 0.0015,
              86399.9999, 951782399.9996, 1078099199.5):
        for p in range(0, 7):
            insts.append(('UTC', v, p))
    # fractions around the point where rounding to p digits carries into the next second (and just below it), at every precision
    for fr in (0.94, 0.949, 0.95, 0.96, 0.994, 0.9951, 0.996, 0.9994, 0.9996, 0.99994, 0.99996, 0.999996, 0.9999996, 0.04, 0.05, 0.051, 0.5):
        for p in range(0, 7):
            insts.append(('UTC', 1389787200 + fr, p))
            insts.append(('UTC', float(rng.randrange(LO, HI)) + fr, p))
    # instants before the epoch (negative numbers): the fraction belongs to the second BELOW
    for v in (-1.25, -0.5, -86400.001, -1.0, -0.0004, -0.9996, -0.25, -1e9 - 0.125, -2208988800.5, -0.96, -0.996, -59.9996):
        for p in range(0, 7):
            insts.append(('UTC', v, p))
    for _ in range(400 if ctx.thorough else 60):
        insts.append(('UTC', rng.uniform(-2.2e9, 0), rng.randrange(0, 7)))
    for _ in range(2000 if ctx.thorough else 300):
        insts.append(('UTC', rng.uniform(LO, HI), rng.randrange(0, 7)))

    # ---- render
    rcases, rmeta = [], []
    for z, v, p in insts:
        n, D = float(v).as_integer_ratio()
        tab = window(tables[z], v) if z != 'UTC' else tables['UTC']
        try:
            text = timestamp(v).render(tzinfo=None if z == 'UTC' else z, ms=p, tzdetail=None if z == 'UTC' else True)
        except Exception as e:
            text = 'EXC %s' % type(e).__name__
        rcases.append([0, p, n, D] + enc_zone(tab)); rmeta.append((z, v, p, tab, text))
    routs = core.run_model('times', rcases)
    pcases, pmeta = [], []
    nrt = 0
    for (z, v, p, tab, text), o in zip(rmeta, routs):
        ft = fields_of_text(text)
        mf, mfrac, mq = o[:6], o[6], o[8]
        if ft is None or ft[0] != mf or ft[1] != mfrac or (z != 'UTC' and ft[2] != z):
            dis(dict(part='render', zone=z, value=repr(v), precision=p, impl=text, model_fields=mf, model_fraction=mfrac))
            # the model no longer describes the rendering: judge the implementation on its own (render, parse back, compare instants)
            try:
                back = timestamp(text).value
                off = (Fraction(v) - Fraction(back)) if p == 0 else abs(Fraction(back) - Fraction(v))
                if not (Fraction(-1, 10 ** 6) <= off <= (1 if p == 0 else Fraction(1, 2 * 10 ** p)) + Fraction(1, 10 ** 6)):
                    bad(dict(zone=z, value=repr(v), precision=p, text=text, parsed_back=repr(back)), 'render then parse returned a different instant')
            except Exception:
                pass
            continue
        # parse the implementation's own text back
        try:
            back = timestamp(text).value
            rej = None
        except Exception as e:
            back, rej = None, type(e).__name__
        pcases.append([1, p] + mf + [mfrac, 0] + enc_zone(tab)); pmeta.append((z, v, p, text, back, rej, mq))
    pouts = core.run_model('times', pcases)
    nrej = 0
    for (z, v, p, text, back, rej, mq), o in zip(pmeta, pouts):
        exact = Fraction(v)
        if back is not None:
            # the property on the implementation alone: same instant at the rendered precision (>= ms when p >= 3)
            # ms=0 does not round: the text drops the sub-second part (instant floored to the second)
            off = (exact - Fraction(back)) if p == 0 else abs(Fraction(back) - exact)
            if not (Fraction(-1, 10 ** 6) <= off <= (1 if p == 0 else Fraction(1, 2 * 10 ** p)) + Fraction(1, 10 ** 6)):
                bad(dict(zone=z, value=repr(v), precision=p, text=text, parsed_back=repr(back)),
                    'render then parse returned a different instant')
                continue
            nrt += 1
        else:
            nrej += 1
        if o[0] == 1:
            if back is None:
                dis(dict(part='parse', zone=z, value=repr(v), text=text, impl='rejected %s' % rej, model=o[1]))
                bad(dict(zone=z, value=repr(v), precision=p, text=text, rejected=rej),
                    'a rendered time that is unambiguous in its zone was rejected by the parser')
            elif round(Fraction(back) * 10 ** p) != o[1] or o[1] != mq:
                dis(dict(part='parse', zone=z, value=repr(v), text=text, impl=repr(back), model=o[1], rendered_units=mq))
        else:
            if back is not None:
                dis(dict(part='parse', zone=z, value=repr(v), text=text, impl=repr(back), model='rejected (ambiguous or nonexistent)'))

    # ---- dst designations resolve the ambiguous hour
    nabb = 0
    abbrev_ok = T.has_pytz_classic          # support_abbreviations needs classic pytz transition tables; the zoneinfo shim has none
    try:
        if abbrev_ok:
            timestamp.support_abbreviations('CA')
        for z in (() if not abbrev_ok else ('America/Edmonton', 'America/Vancouver', 'America/Toronto', 'America/Halifax', 'America/Winnipeg', 'America/St_Johns')):
            tab = tzif(z)
            trans = [e[0] for e in tab if LO < e[0] < HI]
            for t in (trans if ctx.thorough else trans[-6:]):
                for dt in (-3600, -1800, -1, 0, 1, 1800, 3599, 3600):
                    v = float(t + dt)
                    text = timestamp(v).render(tzinfo=z, ms=3)
                    nabb += 1
                    try:
                        back = timestamp(text).value
                    except Exception as e:
                        bad(dict(zone=z, value=v, text=text, rejected=type(e).__name__), 'a time rendered with its DST designation was rejected')
                        continue
                    if abs(back - v) > 0.0006:
                        bad(dict(zone=z, value=v, text=text, parsed_back=back), 'a time rendered with its DST designation parsed to a different instant')
    finally:
        timestamp.support_abbreviations(None, reset=True)

    # ---- comparison
    pairs = []
    for _ in range(3000 if ctx.thorough else 500):
        a = rng.uniform(LO, HI)
        k = rng.random()
        if k < 0.25:
            b = a + rng.choice([0.001, -0.001, 0.0009999, 0.0010001, 0.002, 0.0005, 0.00049, 0.00051])
        elif k < 0.5:
            a = round(a, 3) + rng.choice([0.0, 0.0004, 0.0005, 0.00049999, 0.00050001])
            b = round(a, 3) + rng.choice([0.0, 0.001, -0.001]) + rng.choice([0.0, 0.0004, -0.0004, 0.0005])
        elif k < 0.75:
            b = a + rng.uniform(-0.003, 0.003)
        else:
            b = rng.uniform(LO, HI)
        pairs.append((a, b))
    ccases = []
    for a, b in pairs:
        na, Da = a.as_integer_ratio(); nb, Db = b.as_integer_ratio()
        D = max(Da, Db)
        ccases.append([2, na * (D // Da), nb * (D // Db), D])
    couts = core.run_model('times', ccases)
    def ms_of(s):
        f, frac, _ = fields_of_text(s)
        return calendar.timegm((f[0], f[1], f[2], f[3], f[4], f[5])) * 1000 + frac
    for (a, b), o in zip(pairs, couts):
        ta, tb = timestamp(a), timestamp(b)
        lt, gt, eq = ta < tb, ta > tb, ta == tb
        sa, sb = str(ta), str(tb)
        w = dict(a=repr(a), b=repr(b), render_a=sa, render_b=sb, lt=lt, gt=gt, eq=eq)
        if (lt and not sa < sb) or (gt and not sa > sb) or (sa == sb and not eq) or (eq and (lt or gt)) or (le_ge_bad := ((ta <= tb) != (not gt) or (ta >= tb) != (not lt))):
            bad(w, 'timestamp comparison contradicts the order of the millisecond renderings')
            continue
        if ms_of(sa) != o[3] or ms_of(sb) != o[4]:
            dis(dict(part='millisecond rendering', model=[o[3], o[4]], **w))
        gap = abs(abs(Fraction(b) - Fraction(a)) - Fraction(1, 1000))
        if gap > Fraction(1, 10 ** 6) and (int(lt), int(gt), int(eq)) != tuple(o[:3]):
            dis(dict(part='comparison', model=o[:3], **w))

    # ---- a timestamp moved in place (+=, -=) after it has been rendered once: its rendering and its comparisons are those of a
    # fresh timestamp holding the same value (a cached text must not outlive the value it was made from)
    ninplace = 0
    for _ in range(1500 if ctx.thorough else 300):
        v = round(rng.uniform(LO, HI), 3) + rng.choice([0.0, 0.0004, 0.00049, 0.0005, 0.0009])
        t = timestamp(v)
        steps = []
        for _ in range(rng.randrange(1, 6)):
            str(t); repr(t); t.utc                      # fill whatever caches there are
            d = rng.choice([0.0002, 0.0006, -0.0004, 0.00011, 0.0009, -0.0009, 0.001, 0.0015, 2.0, -61.0, 1e-6])
            steps.append(d)
            if rng.random() < 0.5:
                t += d
            else:
                t -= -d
            ninplace += 1
            fresh = timestamp(t.value)
            w = dict(start=repr(v), steps=steps, value=repr(t.value), rendering=str(t), fresh_rendering=str(fresh))
            if str(t) != str(fresh) or t.utc != fresh.utc:
                bad(w, 'after an in-place step a timestamp renders differently from a fresh timestamp of the same value'); break
            if (t != fresh) or (t < fresh) or (t > fresh):
                bad(w, 'after an in-place step a timestamp does not compare equal to a fresh timestamp of the same value'); break
    cov['in_place_steps'] = ninplace

    # ---- a timestamp DERIVED from a rendered one (t + d, t - d, d = 0 included): the new object renders and compares as a fresh
    # timestamp of its value, and the operand keeps its own value and rendering.  (Own sub-stream: the generator state is put back.)
    _st = rng.getstate()
    nderived = 0
    for _ in range(1500 if ctx.thorough else 300):
        v = round(rng.uniform(LO, HI), 3) + rng.choice([0.0, 0.0004, 0.0005, 0.0009])
        t = timestamp(v)
        for _ in range(rng.randrange(1, 4)):
            before = (t.value, str(t), repr(t), t.utc)                # fills whatever caches there are
            d = rng.choice([0, 0.0006, -0.0004, 0.001, 0.0015, 2.0, -61.0, 3600.0, 86400.0, 1e-6])
            n = (t + d) if rng.random() < 0.5 else (t - (-d))
            nderived += 1
            fresh = timestamp(n.value)
            w = dict(start=repr(v), operand_rendering=before[1], step=d, value=repr(n.value), rendering=str(n), fresh_rendering=str(fresh))
            if abs(n.value - (before[0] + d)) > 1e-6:
                bad(w, 'timestamp + seconds does not hold the sum'); break
            if str(n) != str(fresh) or n.utc != fresh.utc or repr(n) != repr(fresh):
                bad(w, 'a timestamp obtained by + / - from a rendered one renders differently from a fresh timestamp of the same value'); break
            if (n != fresh) or (n < fresh) or (n > fresh):
                bad(w, 'a timestamp obtained by + / - does not compare equal to a fresh timestamp of the same value'); break
            if (t.value, str(t), repr(t), t.utc) != before:
                bad(w, 'timestamp + seconds changed its operand'); break
            back = timestamp(str(n))                                   # render (default: UTC, ms) then parse: within the rendering precision
            if abs(back.value - n.value) > 0.00051:
                bad(dict(w, parsed=repr(back.value)), 'render then parse returned a different instant'); break
            t = n
    cov['derived_steps'] = nderived
    rng.setstate(_st)

    # ---- durations
    durs = [(0, 0), (0, 1), (0, 999), (0, 1000), (0, 1001), (1, 0), (1, 1000), (1, 1), (59, 999999), (60, 0), (3723, 4000), (31557600, 0),
            (31557600 * 3 + 604800 * 4 + 86400 * 6 + 3600 * 18 + 7, 16300), (1, 15700), (0, 1001), (86400, 500000), (604800, 250)]
    for _ in range(6000 if ctx.thorough else 1200):
        k = rng.random()
        secs = rng.choice([0, 0, rng.randrange(0, 120), rng.randrange(0, 10 ** 5), rng.randrange(0, 4 * 10 ** 8)])
        us = rng.choice([0, rng.randrange(0, 10 ** 6), rng.randrange(0, 1000), rng.randrange(0, 1000) * 1000, rng.randrange(0, 10 ** 4) * 100])
        durs.append((secs, us))
    douts = core.run_model('times', [[3, s, u] for s, u in durs])
    pc = []
    ndur = 0
    for (s, u), o in zip(durs, douts):
        td = datetime.timedelta(seconds=s, microseconds=u)
        text = str(duration(td))
        mtext = dur_text(o)
        if text != mtext:
            dis(dict(part='duration format', seconds=s, microseconds=u, impl=text, model=mtext))
        try:
            back = duration(text).timedelta
        except Exception as e:
            back = type(e).__name__
        if back != td:
            bad(dict(seconds=s, microseconds=u, text=text, parsed_back=str(back)), 'a formatted duration did not parse back to the same duration')
        else:
            ndur += 1
        try:
            ps = T.parse_seconds(text)
            if abs(ps - td.total_seconds()) > 1e-6 * max(1.0, td.total_seconds() / 1e9):
                bad(dict(seconds=s, microseconds=u, text=text, parse_seconds=ps), 'parse_seconds of a formatted duration is off')
        except Exception as e:
            bad(dict(seconds=s, microseconds=u, text=text, error=type(e).__name__), 'parse_seconds rejected a formatted duration')
        pc.append([4] + o)
    for (s, u), o in zip(durs, core.run_model('times', pc)):
        if o != [s, u]:
            raise core.HarnessError('model duration round trip broken for %r' % ((s, u),))

    cov['evaluations'] = len(rcases) + len(pcases) + nabb + len(pairs) + 2 * len(durs)
    cov['distinct_nontrivial'] = nrt + nrej + ndur
    cov['exhaustive'] = False
    cov['rule'] = ('%d zones (%s): 16 instants around %s daylight-saving transition 1971-2036 (+-2h in 30 min steps, +-1 s, sub-ms fractions) plus random instants, '
                   'precisions 0..6, rendered with the zone name and parsed back (%d round trips, %d refused as ambiguous); UTC instants with fractions that round up; '
                   '%d renderings with DST abbreviations in 6 Canadian zones; %d comparison pairs (<1 ms, exactly 1 ms, ~1 ms +- 1e-7, same rendering, random); '
                   '%d durations us..12 years' % (len(tables) - 1, 'all of the tz database' if ctx.thorough else '10 fixed + 14 sampled',
                                                 'every' if ctx.thorough else '7', nrt, nrej, nabb, len(pairs), len(durs)))
    cov['impl_model_disagreements'] = ndis
    cov['impl_property_failures'] = nbad
    if ndis and not nbad:
        ctx.unresolved('correspondence cpppo.history.times = Model.Times (render / parse / compare / duration)', first)
    elif ndis:
        ctx.broken.append('correspondence cpppo.history.times = Model.Times')
        ctx.notes.append(repr(first)[:1500])
    ctx.sample(dict(example=rmeta[0][4], model=routs[0]))
    if not abbrev_ok:
        ctx.assumptions.append('DST abbreviations (MST/MDT...) cannot be exercised on the implementation here: timestamp.support_abbreviations needs classic pytz, '
                               'this environment has the zoneinfo shim; the designation theorems (C17_ambiguous) stand on the model alone')
    ctx.assumptions += ['floats enter the model as exact rationals; Python round()/float formatting are correctly rounded (any deviation shows as a render disagreement)',
                        'zone tables: independent TZif reader over the tzdata package; instants 1971..2036 (inside the explicit transition tables, no POSIX footer rules)',
                        'the characters of the text are produced/parsed by the harness regex; the model works on the numeric fields']


def replay(ctx, rep):
    print(rep.get('what'), rep.get('witness'))
    return 1
