"""C06 — exactly one matching reply per request, delivered in request order.
Theorems: coq/Properties/C06.v over coq/Model/Session.v (with Model/Route.v + Model/Logix.v executing the CIP request).
Tie (correspondence): generated sessions (Register, List*, SendRRData reads / writes / bundles / attribute services —
succeeding, CIP-refused, route-refused — Unregister, in any order) are rendered to frames, written to the real
enip_srv_tcp + logix.process as ONE block (every request pipelined before any reply is read) and frame by frame; the
reply frames are compared field by field with the extracted session model (command, session handle, status, sender
context, options, CIP reply bytes, tag store), and judged on their own against the property."""
import struct
from vlib import core
from props import enip_common as E, logix_common as L, c02

TAGS = [dict(name='T', ty='DINT', scalar=False, n=4, addr=None, init=[('i', 0)] * 4),
        dict(name='S', ty='INT', scalar=False, n=3, addr=(0x99, 1, 2), init=[('i', 5), ('i', 6), ('i', 7)]),
        dict(name='B', ty='SINT', scalar=True, n=1, addr=None, init=[('i', -1)]),
        dict(name='TA', ty='INT', scalar=False, n=2, addr=None, init=[('i', 1), ('i', 2)])]      # (a two-character name: C08's zero-length segments)
LISTS = {0x04: 'ListServices', 0x63: 'ListIdentity', 0x64: 'ListInterfaces'}


def hdr(cmd, body, sess, ctx, opts=0, status=0):
    return struct.pack('<HHII8sI', cmd, len(body), sess, status, ctx, opts) + body


def gen_cip(rng):
    k = rng.random()
    if k < 0.22:
        t = rng.choice(TAGS); n = t['n']
        idx = rng.choice([None, 0, n - 1, n, n + 3]) if not t['scalar'] else None
        return ('read', ('sym', rng.choice([t['name'], t['name'].lower()]), idx), rng.choice([1, 1, n, n + 1]))
    if k < 0.34:
        return ('readf', ('sym', 'T', None), rng.choice([1, 4]), rng.choice([0, 4, 8]))
    if k < 0.52:
        n = rng.choice([1, 2, 4, 5])
        return ('writef', ('sym', 'T', rng.choice([None, 0, 1])), 196, n, 0, [('i', rng.randrange(-50, 50)) for _ in range(n)])
    if k < 0.57:
        return ('write', ('sym', 'S', 1), rng.choice([195, 195, 196]), 2, [('i', rng.randrange(-9, 9)), ('i', 3)])
    if k < 0.585:
        # a write that declares fewer elements than it carries values (refused: the declared count and the data disagree)
        return rng.choice([('writef', ('sym', 'T', 1), 196, 1, 0, [('i', 0x1111), ('i', 0x2222), ('i', 0x3333)]),
                           ('write', ('sym', 'S', 0), 195, 1, [('i', 0x111), ('i', 0x222)]), ('writef', ('sym', 'TA', None), 195, 1, 0, [('i', 7), ('i', 8)])])
    if k < 0.62:
        # cross-type writes whose first values fit the tag and a later one does not (refused as a whole), or that all fit
        if rng.random() < 0.5:
            return ('writef', ('sym', 'T', rng.choice([None, 1])), 200, 3, 0, [('i', 7), ('i', rng.choice([8, 2 ** 31 - 1])), ('i', rng.choice([2 ** 32 - 1, 2 ** 31, 9]))])
        return ('write', ('sym', 'S', 0), 199, 2, [('i', rng.choice([5, 32767])), ('i', rng.choice([65535, 32768, 6]))])
    if k < 0.70:
        return ('read', ('sym', rng.choice(['nosuch', 'Tx', 'Tx', '\xb5m', 'K\xb5', 'stra\xdfe', '\xff\xe9']), rng.choice([None, None, 3])), 1)            # unknown tag (also with an element index): CIP status 0x05 expected
    if k < 0.715:
        # a supported service addressed, by a single request, to an object that does not exist: unroutable - one frame with a non-zero
        # encapsulation status, and the session ends (inside a bundle the Message Router answers it: next branch)
        return rng.choice([('get', ('num', 0x77, 1, 1, None)), ('set', ('num', 0x99, 7, 2, None), [0] * 6)])
    if k < 0.74:
        return ('get', ('num', 0x99, 1, 2, None))
    if k < 0.78:
        # attribute services that name nothing: an unknown tag, an object / attribute that does not exist (still one reply, reply bit set)
        # (an object that does not exist is unroutable when addressed by a single request - the session ends with status 0x08, which
        # the property allows - so those two travel inside a bundle, where the Message Router answers them)
        return rng.choice([('get', ('sym', 'nosuch', None)), ('set', ('sym', 'Tx', None), [1, 2]), ('get', ('num', 0x99, 1, 9, None)),
                           ('multi', [('read', ('sym', 'T', None), 1), ('get', ('num', 0x77, 1, 1, None)), ('set', ('num', 0x99, 7, 2, None), [0] * 6),
                                      ('get', ('num', 0x99, 1, 2, None))]),
                           # the Message Router's own class, an instance that does not exist, the attribute number and byte count of tag T
                           ('multi', [('set', ('num', 2, 7, 1, None), [rng.getrandbits(8) for _ in range(16)]), ('readf', ('sym', 'T', None), 4, 0),
                                      ('get', ('num', 2, 9, 1, None))])])
    if k < 0.84:
        # the whole attribute (6 bytes), or cut short at an element boundary / inside an element / too long: refused, nothing changes
        return ('set', ('num', 0x99, 1, 2, None), [rng.getrandbits(8) for _ in range(rng.choice([6, 6, 6, 2, 4, 5, 8]))])
    if k < 0.90:
        return ('read', ('num', 0x99, 1, 2, rng.choice([None, 1, 7])), 1)
    members = [gen_cip(rng) for _ in range(rng.randrange(1, 4))]
    return ('multi', [m for m in members if m[0] != 'multi'] or [('read', ('sym', 'T', None), 1)])


def noobj(r):
    return r[0] in ('get', 'set') and r[1][0] == 'num' and (r[1][1], r[1][2]) in ((0x77, 1), (0x99, 7))


def routed_ok(cfg, rp):
    return cfg is None or not rp or (cfg != [] and rp == cfg)


def model_part(cfg, session):
    """(Model.Session.unroutable now models a single request to an object that does not exist - status 8, session ends - so the model
    gets the whole session.)"""
    return session, None


def gen_session(rng, cfg):
    qs = []
    n = rng.randrange(2, 9)
    if rng.random() < 0.85:
        qs.append(('register',))
    for i in range(n):
        k = rng.random()
        if k < 0.08:
            qs.append(('register',))
        elif k < 0.13:
            qs.append(('unregister',))
        elif k < 0.22:
            qs.append(('list', rng.choice(list(LISTS))))
        else:
            rp = rng.choice([None, None, None, [], [(1, 0)], [(1, 5)], [(2, (10, 0, 0, 1))]])
            qs.append(('send', rp, gen_cip(rng)))
    out = []
    for i, q in enumerate(qs):
        ctx = bytes([rng.getrandbits(8) for _ in range(8)]) if rng.random() < 0.7 else struct.pack('<Q', i)
        sess = rng.choice([0x1234, 0, 0xFFFFFFFF, rng.getrandbits(32)])
        opts = 0
        out.append((q, sess, ctx, opts))
    return out


def seg_py(s):
    p, l = s
    return {'port': p, 'link': l if isinstance(l, int) else '.'.join(map(str, l))}


def enc_seg(s):
    p, l = s
    return [p, 0, l, 0, 0, 0] if isinstance(l, int) else [p, 1] + list(l)


def enc_opath(p):
    return [0] if p is None else [1, len(p)] + [x for s in p for x in enc_seg(s)]


def frame_of(q, sess, ctx, opts):
    kind = q[0]
    if kind == 'register':
        return hdr(0x65, struct.pack('<HH', 1, 0), sess, ctx, opts)
    if kind == 'unregister':
        return hdr(0x66, b'', sess, ctx, opts)
    if kind == 'list':
        return hdr(q[1], b'', sess, ctx, opts)
    rp, r = q[1], q[2]
    wrap = True if (rp is None and r[0] == 'readf') else None      # a bare 0x52 is the Unconnected Send service itself
    return E.build_unconnected(L.py_req(r), route_path=None if rp is None else [seg_py(s) for s in rp], ctx=ctx, session=sess, wrap=wrap)


def enc_model(cfg, store_enc, session, names):
    c = enc_opath(cfg) + store_enc + [len(session)]
    for q, sess, ctx, opts in session:
        env = [sess] + list(ctx) + [opts]
        if q[0] == 'register':
            c += [0] + env
        elif q[0] == 'unregister':
            c += [1] + env
        elif q[0] == 'list':
            c += [2, q[1]] + env
        else:
            c += [3] + env + enc_opath(q[1]) + L.enc_req(q[2], names)
    return c


def dec_model(o):
    n = o[0]; i = 1; reps = []
    for _ in range(n):
        cmd, sess, status = o[i:i + 3]; ctx = bytes(o[i + 3:i + 11]); opts = o[i + 11]; bk = o[i + 12]; i += 13
        body = None
        if bk == 1:
            body = ('list', o[i]); i += 1
        elif bk == 2:
            ln = o[i]; body = ('cip', bytes(o[i + 1:i + 1 + ln])); i += 1 + ln
        elif bk == 0:
            body = ('register',)
        else:
            body = ('none',)
        reps.append((cmd, sess, status, ctx, opts, body))
    return reps, o[i]


def parse_reply(b):
    cmd, ln, sess, status, ctx, opts = struct.unpack('<HHII8sI', b[:24])
    body = b[24:]
    if len(body) != ln:
        return None
    return cmd, sess, status, ctx, opts, body


class _ScriptedRandom:
    """stands in for the `random` module inside cpppo.server.enip.ucmm: randint answers from a script first"""
    def __init__(self, real, script):
        self._real, self._script = real, list(script)

    def randint(self, a, b):
        return self._script.pop(0) if self._script else self._real.randint(a, b)

    def __getattr__(self, n):
        return getattr(self._real, n)


def run_impl(cfg, frames, whole, aborted_before=None, size=None):
    """fresh simulator with the given personality -> (reply frames, error, store image).
    aborted_before: bytes of an earlier session from the SAME peer address that ended inside a frame"""
    from cpppo.server.enip import logix, device, ucmm, main
    from cpppo import dotdict
    from cpppo.server import network
    device.lookup_reset(); logix.setup_reset()
    cfg_py = None if cfg is None else [seg_py(s) for s in cfg]
    U = type('UCMM_verif', (ucmm.UCMM,), {'route_path': cfg_py})
    im = L.Impl(488, TAGS)
    try:
        logix.setup_reset()
        srv = dotdict(); srv.control = dotdict(latency=0.0, done=False, disable=False)
        if aborted_before is not None:
            saved = network.recv
            network.recv = lambda c, maxlen=4096, timeout=None: c.recv(maxlen)
            try:
                main.enip_srv_tcp(c02.FakeConn([aborted_before]), ('10.6.6.6', 40600), 'c06', logix.process, server=srv, UCMM_class=U)
            except Exception:
                pass
            finally:
                network.recv = saved
        if whole == 'split':
            # every frame arrives in two recv() blocks (header and payload written separately, or cut anywhere inside)
            blocks = []
            for k, f in enumerate(frames):
                cut = (24, 1, len(f) - 1, len(f) // 2)[k % 4]
                blocks += [f[:cut], f[cut:]] if 0 < cut < len(f) else [f]
            conn = c02.FakeConn(blocks)
        else:
            conn = c02.FakeConn([b''.join(frames)] if whole else list(frames))
        conn.send = lambda b, _c=conn: (_c.sent.append(bytes(b)), len(b))[1]       # keep the real session handles
        saved = network.recv
        network.recv = lambda c, maxlen=4096, timeout=None: c.recv(maxlen)
        # the session handle is drawn at random: the run that reads frame by frame makes the generator's first draws the
        # awkward ones (0, and a value drawn before), which the property must survive like any other outcome
        saved_random = ucmm.random
        if whole is False:
            ucmm.random = _ScriptedRandom(saved_random, [0, 0])
        err = None
        try:
            main.enip_srv_tcp(conn, ('10.6.6.6', 40600), 'c06', logix.process, server=srv, UCMM_class=U, **({} if size is None else {'size': size}))
        except Exception as e:
            err = type(e).__name__
        finally:
            network.recv = saved
            ucmm.random = saved_random
        return conn.sent, err, L.hash_list(im.image())
    finally:
        im.close()


def cm_frames(rng):
    """a session mixing tag reads with the Connection Manager's services (Forward Open small / large, Forward Close for an open and for
    an unknown connection), every frame built by the reference encoder -> [(frame, expected reply service, context)]"""
    from props import c01, codec_common as K
    out = [(hdr(0x65, struct.pack('<HH', 1, 0), 0, b'cmregist'), None, b'cmregist')]
    opened = []
    for i in range(rng.randrange(3, 9)):
        cx = b'cm%06d' % i
        k = rng.random()
        if k < 0.3:
            f = frame_of(('send', None, ('read', ('sym', 'T', None), rng.choice([1, 4]))), 0x1234, cx, 0)
            out.append((f, 0xCC, cx)); continue
        if k < 0.75 or not opened:
            large = rng.random() < 0.5
            size = rng.choice([512, 1000, 4000]) if large else rng.choice([100, 500, 511])
            fo = dict(path=[('class', 6), ('instance', 1)], prio=10, ticks=5, ot=(rng.getrandbits(32), 2000000, (size, 1, 0, 2, 0)),
                      to=(rng.getrandbits(32), 2000000, (rng.choice([100, 500]), 1, 0, 2, 0)), serial=rng.getrandbits(16), vendor=0x1337,
                      oserial=rng.getrandbits(32), mult=3, transport=0xA3, cpath=[('port', 1, 0), ('class', 2), ('instance', 1)])
            body = c01.model_enc(11, 0, [K.fo_tree(fo, K.ncp_model(large, fo['ot'][2]), K.ncp_model(large, fo['to'][2]), large)])[0]
            opened.append(fo)
            want = 0xDB if large else 0xD4
        else:
            fo = rng.choice(opened) if rng.random() < 0.7 else dict(rng.choice(opened), serial=rng.getrandbits(16))
            body = c01.model_enc(11, 0, [K.cm_tree(dict(kind='fc_req', path=fo['path'], prio=10, ticks=5, serial=fo['serial'], vendor=fo['vendor'],
                                                        oserial=fo['oserial'], cpath=fo['cpath']))])[0]
            want = 0xCE
        if not isinstance(body, bytes):
            raise core.HarnessError('reference encoder refused a Connection Manager request')
        pay = struct.pack('<IHHHHHH', 0, 8, 2, 0, 0, 0xB2, len(body)) + body
        out.append((hdr(0x6F, pay, 0x1234, cx), want, cx))
    return out


def cm_sessions(ctx, bad):
    n = 0
    for _ in range(120 if ctx.thorough else 25):
        plan = cm_frames(ctx.rng)
        n += 1
        replies, err, _ = run_impl(None, [f for f, _, _ in plan], whole=True)
        w = dict(frames=[f.hex() for f, _, _ in plan], replies=[r.hex() for r in replies], error=err, expected_services=[s for _, s, _ in plan])
        if len(replies) != len(plan):
            bad(w, '%d reply frames for %d pipelined requests (Connection Manager services among them)' % (len(replies), len(plan))); continue
        for i, ((f, svc, cx), r) in enumerate(zip(plan, replies)):
            p = parse_reply(r)
            if p is None or p[3] != cx or p[2] != 0:
                bad(dict(w, at=i), 'request #%d is not answered by a status-0 frame carrying its sender context' % i); break
            if svc is None:
                continue
            cip = E.unwrap_send_data(p[5])
            if p[0] != 0x6F or cip is None or not cip or cip[0] != svc:
                bad(dict(w, at=i), 'request #%d is not answered inside SendRRData framing by service 0x%02x' % (i, svc)); break
    return n


def run(ctx):
    E.quiet()
    ctx.prove()
    rng = ctx.rng
    cov = ctx.coverage
    base = L.enc_case((488, TAGS, []))
    store_enc = base[1:-1]
    names = {t['name'].lower(): i for i, t in enumerate(TAGS)}
    N = 400 if ctx.thorough else 90
    ndis, nbad, first = 0, 0, None
    nknown = 0
    cases, meta = [], []
    for i in range(N):
        cfg = rng.choice([None, None, None, [], [(1, 0)]])
        session = gen_session(rng, cfg)
        frames = [frame_of(*x) for x in session]
        replies, err, image = run_impl(cfg, frames, whole=True)
        # the same requests one frame per recv(); every third session follows a session from the same peer that was cut inside a frame
        cut = frames[0][:rng.choice([3, 10, 24, len(frames[0]) - 1])] if i % 3 == 0 else None
        r2, err2, image2 = run_impl(cfg, frames, whole=False, aborted_before=cut)
        if i % 3 == 1:
            r4, err4, image4 = run_impl(cfg, frames, whole='split')
            strip4 = lambda rs: [r[:4] + b'\0\0\0\0' + r[8:] if r[:2] == b'\x65\x00' else r for r in rs]
            if strip4(r4) != strip4(replies) or image4 != image or err4 != err:
                nbad += 1
                ctx.violation(dict(frames=[f.hex() for f in frames], replies=[r.hex() for r in replies], replies_when_every_frame_arrives_in_two_blocks=[r.hex() for r in r4], error=err4),
                              'replies differ when every request frame arrives in two recv() blocks')
        if i % 5 == 0:
            # a simulator started with --size N serves every request whose encapsulated payload is at most N bytes: with N = the largest
            # payload of this session nothing may change
            nmax = max(len(f) - 24 for f in frames)
            r3, err3, image3 = run_impl(cfg, frames, whole=True, size=nmax)
            strip3 = lambda rs: [r[:4] + b'\0\0\0\0' + r[8:] if r[:2] == b'\x65\x00' else r for r in rs]
            if strip3(r3) != strip3(replies) or image3 != image:
                nbad += 1
                ctx.violation(dict(size_option=nmax, frames=[f.hex() for f in frames], replies=[r.hex() for r in replies], replies_with_size_limit=[r.hex() for r in r3]),
                              'with --size N a request of at most N bytes is answered differently (a request of exactly N bytes is refused)')
        cases.append(enc_model(cfg, store_enc, model_part(cfg, session)[0], names)); meta.append((cfg, session, frames, replies, err, image, r2, err2, image2))
    outs = core.run_model('session', cases)
    nrep = 0

    def describe(session):
        return [(q[0], q[1] if q[0] == 'list' else (q[1], L.describe_req(q[2])) if q[0] == 'send' else None, '%08x' % sess, ctx.hex())
                for q, sess, ctx, opts in session]

    for (cfg, session, frames, replies, err, image, r2, err2, image2), o in zip(meta, outs):
        w = dict(personality=cfg, session=describe(session), frames=[f.hex() for f in frames], replies=[r.hex() for r in replies], error=err)

        def strip(rs):       # Register replies carry a random handle
            return [r[:4] + b'\0\0\0\0' + r[8:] if r[:2] == b'\x65\x00' else r for r in rs]
        if strip(replies) != strip(r2) or image != image2 or err != err2:
            nbad += 1
            if nbad <= 4:
                ctx.violation(dict(w, replies_frame_by_frame=[r.hex() for r in r2]), 'replies differ between pipelined and one-at-a-time delivery of the same requests')
            continue
        if any(r[:2] == b'\x65\x00' and r[4:8] == bytes(4) and r[8:12] == bytes(4) for r in r2):
            nbad += 1
            ctx.violation(dict(w, replies_frame_by_frame=[r.hex() for r in r2], random_draws='0, 0, then random'),
                          'Register Session answered with session handle 0 when the first random draws are 0')
            continue
        parsed = [parse_reply(r) for r in replies]
        if any(p is None for p in parsed):
            nbad += 1
            ctx.violation(w, 'a reply frame whose length field does not match its payload')
            continue
        mreps, mhash = dec_model(o)
        # ---- the property on the implementation alone
        why, known = None, None
        live = True
        j = 0
        for (q, sess, cx, opts) in session:
            if not live:
                break
            if q[0] == 'unregister':
                live = False
                continue
            if j >= len(parsed):
                why = 'request #%d (%s) got no reply frame' % (session.index((q, sess, cx, opts)), q[0]); break
            cmd, rsess, status, rctx, ropts, body = parsed[j]; j += 1
            want_cmd = {'register': 0x65, 'list': q[1] if q[0] == 'list' else None, 'send': 0x6F}[q[0]]
            if cmd != want_cmd or rctx != cx:
                why = 'reply #%d does not carry its request\'s command / sender context' % (j - 1); break
            if q[0] == 'register':
                if rsess == 0 or status != 0:
                    why = 'Register Session answered with handle %d status %d' % (rsess, status); break
                continue
            if rsess != sess:
                why = 'reply #%d carries session handle %08x, request had %08x' % (j - 1, rsess, sess); break
            if q[0] == 'send':
                if status != 0:
                    live = False
                    if body:
                        why = 'non-zero encapsulation status with a payload'; break
                    r = q[2]
                    unknown = lambda x: x[0] == 'read' and x[1][0] == 'sym' and x[1][1] in ('nosuch', 'Tx', '\xb5m', 'K\xb5', 'stra\xdfe', '\xff\xe9')
                    if noobj(r) and routed_ok(cfg, q[1]):
                        continue                                   # unroutable: the object does not exist
                    if routed_ok(cfg, q[1]):
                        if unknown(r):
                            known = 'C06/unknown-tag-single-request-ends-session'
                        why = 'supported service on an acceptable route answered with encapsulation status 0x%02x and the session ended' % status
                        break
                    continue
                if noobj(q[2]):
                    why = 'a request addressed to an object that does not exist (unroutable) was answered with encapsulation status 0'; break
                if not routed_ok(cfg, q[1]):
                    why = 'an unroutable request (route path %r on a device configured %r) was answered with encapsulation status 0' % (q[1], cfg); break
                cip = E.unwrap_send_data(body)
                svc = {'read': 0x4C, 'readf': 0x52, 'write': 0x4D, 'writef': 0x53, 'get': 0x0E, 'set': 0x10, 'multi': 0x0A}[q[2][0]]
                if cip is None or not cip or cip[0] != (svc | 0x80):
                    why = 'reply #%d is not a SendRRData (null address + data item) carrying service 0x%02x' % (j - 1, svc | 0x80); break
        if why is None and j != len(parsed):
            why = '%d reply frames for %d answered requests' % (len(parsed), j)
        if why:
            if known:
                nknown += 1
                ctx.violation(w, why, known_key=known)
            else:
                nbad += 1
                if nbad <= 4:
                    ctx.violation(w, why)
            continue
        # ---- correspondence with the session model
        cutat = model_part(cfg, session)[1]
        if cutat is not None and not (mreps and mreps[-1][2] != 0):      # (unless an earlier request already ended the session)
            last = parsed[-1]
            if not (last[2] != 0 and not last[5]):
                nbad += 1
                ctx.violation(w, 'the session did not end with the non-zero status frame answering the request to an object that does not exist')
                continue
            parsed = parsed[:-1]
        impl = [(p[0], p[1] if p[0] != 0x65 else 'handle', p[2], p[3], p[4],
                 ('register',) if p[0] == 0x65 else ('list', p[0]) if p[0] in LISTS else (('cip', E.unwrap_send_data(p[5])) if p[2] == 0 else ('none',)))
                for p in parsed]
        mod = [(m[0], m[1] if m[0] != 0x65 else 'handle', m[2], m[3], m[4], m[5]) for m in mreps]
        if impl != mod or mhash != image:
            ndis += 1
            k = next((x for x, (a, b) in enumerate(zip(impl, mod)) if a != b), min(len(impl), len(mod)))
            first = first or dict(w, first_difference_at_reply=k, impl=repr(impl[k:k + 1])[:300], model=repr(mod[k:k + 1])[:300],
                                  store_equal=mhash == image)
        else:
            nrep += len(parsed)
    for pm in backpressure_scenario(400)[:2]:
        nbad += 1
        ctx.violation(dict(scenario='one session, requests with ~30 kB replies all written before any reply is read'), 'pipelined session under back-pressure: ' + pm)
    for pm in routed_scenario()[:2]:
        nbad += 1
        ctx.violation(dict(scenario='front simulator with [UCMM] Route 1/1 -> delaying proxy -> back simulator', problem=pm),
                      'forwarded (routed) request: ' + pm)
    def cm_bad(w, what):
        nonlocal nbad
        nbad += 1
        if nbad <= 4:
            ctx.violation(w, what)
    ncm = cm_sessions(ctx, cm_bad)
    cov['connection_manager_sessions'] = ncm
    cov['evaluations'] = 2 * len(cases) + 4 + ncm
    cov['distinct_nontrivial'] = nrep
    cov['exhaustive'] = False
    cov['rule'] = ('%d generated sessions of 2-9 requests (Register anywhere / twice / missing, List*, Unregister mid-session, SendRRData reads, fragmented reads, writes, '
                   'type-mismatched writes, out-of-range and unknown-tag requests, attribute services, bundles; route paths absent / empty / matching / mismatching a simple or '
                   'configured personality; random sender contexts and session handles), each written as one block and frame by frame; %d replies matched field by field; '
                   '%d sessions matched the recorded finding; plus one routed scenario over real sockets (front simulator -> delaying proxy -> back simulator: a forwarded '
                   'request that times out, then forwarded write / read on a new session)' % (len(cases), nrep, nknown))
    cov['impl_model_disagreements'] = ndis
    cov['impl_property_failures'] = nbad
    if ndis and not nbad:
        ctx.unresolved('correspondence enip_srv_tcp + logix.process session = Model.Session.srun', first)
    elif ndis:
        ctx.broken.append('correspondence enip_srv_tcp + logix.process session = Model.Session.srun')
        ctx.notes.append(repr(first)[:1500])
    ctx.sample(dict(session=describe(meta[0][1]), replies=[r.hex()[:60] for r in meta[0][3]]))
    ctx.assumptions += ['requests are well-formed frames (malformed ones are C08); no Forward Open / connected sends; remote routes only in the 4-request socket scenario (timing dependent, not modelled)',
                        'the session handle of a Register reply is random: only non-zero-ness is compared']


def replay(ctx, rep):
    print(rep.get('what'), rep.get('witness'))
    return 1


# ---------------------------------------------------------------- routed requests over real sockets
def backpressure_scenario(nreq=160):
    """"... even when many requests are written before any reply is read": one session writes `nreq` requests whose replies are ~30 kB each
    (several MB of replies, far more than the socket buffers hold) before it reads anything; then every reply must be there, whole, in order.
    -> list of problems"""
    import socket, subprocess, sys, threading, time
    s = socket.socket(); s.bind(('127.0.0.1', 0)); port = s.getsockname()[1]; s.close()
    proc = subprocess.Popen([sys.executable, '-m', 'cpppo.server.enip', '--no-udp', '-a', '127.0.0.1:%d' % port, 'BIG@0x99/1/1=DINT[7500]', 'T=DINT[4]'],
                            stdout=subprocess.DEVNULL, stderr=subprocess.DEVNULL, cwd='/')
    problems = []
    try:
        for _ in range(150):
            try:
                c = socket.create_connection(('127.0.0.1', port), timeout=0.5); c.close(); break
            except OSError:
                time.sleep(0.1)
        else:
            raise core.HarnessError('simulator for the back-pressure scenario did not start')
        c = socket.create_connection(('127.0.0.1', port), timeout=5)
        c.sendall(hdr(0x65, struct.pack('<HH', 1, 0), 0, b'bp-reg00'))
        reg = b''
        while len(reg) < 28:
            reg += c.recv(28 - len(reg))
        handle = struct.unpack('<I', reg[4:8])[0]
        reqs = []
        for k in range(nreq):
            r = ('get', ('num', 0x99, 1, 1, None)) if k % 4 else ('read', ('sym', 'T', None), 4)
            reqs.append(E.build_unconnected(L.py_req(r), ctx=struct.pack('<Q', 0x1000 + k), session=handle))
        werr = []

        def writer():
            try:
                c.sendall(b''.join(reqs))
            except OSError as e:
                werr.append(str(e))
        t = threading.Thread(target=writer, daemon=True); t.start()
        time.sleep(5.0)                                    # nothing is read while the replies pile up
        c.settimeout(20)
        buf, got = b'', 0
        try:
            while got < nreq:
                while len(buf) < 24 or len(buf) < 24 + struct.unpack('<H', buf[2:4])[0]:
                    d = c.recv(1 << 16)
                    if not d:
                        raise EOFError()
                    buf += d
                ln = struct.unpack('<H', buf[2:4])[0]
                f, buf = buf[:24 + ln], buf[24 + ln:]
                cmd, _, sess, status, cx, _ = struct.unpack('<HHII8sI', f[:24])
                want = 30000 + 4 + 16 if got % 4 else 16 + 4 + 2 + 16
                if cmd != 0x6F or status != 0 or sess != handle or cx != struct.pack('<Q', 0x1000 + got) or ln != want:
                    problems.append('reply #%d of %d written before any was read: command 0x%04x status %d context %s length %d (expected SendRRData, 0, request #%d\'s, %d)'
                                    % (got, nreq, cmd, status, cx.hex(), ln, got, want)); break
                got += 1
        except (EOFError, OSError) as e:
            problems.append('%d of %d replies arrived for requests written before any reply was read, then %s' % (got, nreq, type(e).__name__))
        t.join(5)
        c.close()
    finally:
        proc.terminate()
        try:
            proc.wait(5)
        except Exception:
            proc.kill()
    return problems


def routed_scenario():
    """client -> front simulator ([UCMM] Route 1/1 -> proxy) -> delaying proxy -> back simulator.  A forwarded request that times
    out must be answered by one frame with a non-zero status, and later forwarded requests must get THEIR OWN replies.
    -> list of problems"""
    import os, socket, subprocess, sys, tempfile, threading, time, shutil

    def free_port():
        s = socket.socket(); s.bind(('127.0.0.1', 0)); p = s.getsockname()[1]; s.close(); return p

    def recv_frame(s):
        buf = b''
        try:
            while len(buf) < 24 or len(buf) < 24 + struct.unpack('<H', buf[2:4])[0]:
                d = s.recv(4096)
                if not d:
                    return None
                buf += d
        except socket.error:
            return None
        return parse_reply(buf)

    class Proxy(threading.Thread):
        def __init__(self, lport, tport):
            super().__init__(daemon=True)
            self.delay, self.tport = 0.0, tport
            self.ls = socket.socket(); self.ls.setsockopt(socket.SOL_SOCKET, socket.SO_REUSEADDR, 1)
            self.ls.bind(('127.0.0.1', lport)); self.ls.listen(5)
        def run(self):
            while True:
                try:
                    c, _ = self.ls.accept()
                    b = socket.create_connection(('127.0.0.1', self.tport))
                except OSError:
                    return
                for src, dst, slow in ((c, b, False), (b, c, True)):
                    threading.Thread(target=self.pump, args=(src, dst, slow), daemon=True).start()
        def pump(self, src, dst, slow):
            try:
                while True:
                    d = src.recv(4096)
                    if not d:
                        break
                    if slow and self.delay:
                        time.sleep(self.delay)
                    dst.sendall(d)
            except OSError:
                pass
            finally:
                for s in (src, dst):
                    try:
                        s.shutdown(socket.SHUT_RDWR)
                    except OSError:
                        pass

    pback, pproxy, pfront = free_port(), free_port(), free_port()
    tmp = tempfile.mkdtemp(prefix='c06r_')
    procs = []
    problems = []
    try:
        cfgf = os.path.join(tmp, 'router.cfg')
        open(cfgf, 'w').write('[UCMM]\nRoute Path = 1/0\nRoute = {"1/1": "127.0.0.1:%d"}\n' % pproxy)
        dn = subprocess.DEVNULL
        procs.append(subprocess.Popen([sys.executable, '-m', 'cpppo.server.enip', '--no-udp', '--address', '127.0.0.1:%d' % pback, 'REMOTE=INT[10]'],
                                      stdout=dn, stderr=dn, cwd=tmp))
        procs.append(subprocess.Popen([sys.executable, '-m', 'cpppo.server.enip', '--no-udp', '-c', cfgf, '--address', '127.0.0.1:%d' % pfront, 'LOCAL=INT[10]'],
                                      stdout=dn, stderr=dn, cwd=tmp))
        proxy = Proxy(pproxy, pback); proxy.start()

        def connect(port):
            end = time.time() + 20
            while True:
                try:
                    return socket.create_connection(('127.0.0.1', port), timeout=10)
                except OSError:
                    if time.time() > end:
                        raise core.HarnessError('simulator subprocess did not start listening')
                    time.sleep(0.2)
        connect(pback).close()

        def session():
            s = connect(pfront)
            s.sendall(hdr(0x65, struct.pack('<HH', 1, 0), 0, b'REGISTER'))
            r = recv_frame(s)
            if not r or r[0] != 0x65 or not r[1]:
                raise core.HarnessError('Register on the front simulator failed: %r' % (r,))
            return s, r[1]

        def routed(r, sess, ctx, priority, ticks):
            from cpppo import dotdict
            from cpppo.server.enip import logix, parser, client
            # an Unconnected Send with route path 1/1 and the given timeout = (1 << priority) * ticks ms
            wire = bytearray(E.build_unconnected(L.py_req(r), route_path=[{'port': 1, 'link': 1}], ctx=ctx, session=sess))
            # patch priority / timeout_ticks (bytes right after the Connection Manager path 52 02 20 06 24 01)
            i = wire.index(b'\x52\x02\x20\x06\x24\x01') + 6
            wire[i], wire[i + 1] = priority, ticks
            return bytes(wire)

        def check(what, r, ctx, sess, svc):
            if r is None:
                problems.append('%s: no reply frame' % what); return
            cmd, rsess, status, rctx, ropts, body = r
            cip = E.unwrap_send_data(body) if status == 0 else None
            if rctx != ctx or rsess != sess or cmd != 0x6F or status != 0 or not cip or cip[0] != (svc | 0x80):
                problems.append('%s: got command %#x status %#x context %r service %s' % (what, cmd, status, rctx, cip[:1].hex() if cip else None))

        rd = lambda e: ('read', ('sym', 'REMOTE', e), 1)
        s, h = session()
        s.sendall(routed(rd(1), h, b'req-0001', 5, 157))
        check('routed Read Tag', recv_frame(s), b'req-0001', h, 0x4C)
        proxy.delay = 1.0
        s.sendall(routed(rd(2), h, b'req-0002', 0, 250))
        r = recv_frame(s)
        if r is None or r[3] != b'req-0002' or r[2] == 0:
            problems.append('timed-out routed request: expected one frame with a non-zero status, got %r' % (r,))
        s.close()
        time.sleep(1.5)
        proxy.delay = 0.0
        s, h = session()
        s.sendall(routed(('write', ('sym', 'REMOTE', 3), 195, 1, [('i', 99)]), h, b'req-0003', 5, 157))
        check('routed Write Tag after a timed-out one', recv_frame(s), b'req-0003', h, 0x4D)
        s.sendall(routed(rd(3), h, b'req-0004', 5, 157))
        r = recv_frame(s)
        check('routed Read Tag after a timed-out one', r, b'req-0004', h, 0x4C)
        if r and r[2] == 0:
            cip = E.unwrap_send_data(r[5])
            if cip and cip[0] == 0xCC and cip[-2:] != struct.pack('<h', 99):
                problems.append('routed Read Tag returned %r, the value just written is 99' % (cip[-2:],))
        s.close()
    finally:
        for p in procs:
            p.terminate()
        for p in procs:
            try:
                p.wait(5)
            except Exception:
                p.kill()
        shutil.rmtree(tmp, ignore_errors=True)
    return problems
