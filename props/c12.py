"""C12 — client results do not depend on pipelining depth or request bundling; operation text denotes what it spells.
Theorems: coq/Properties/C12.v over coq/Model/Client.v (bundling plan of connector.issue, pipeline event order),
coq/Model/OpText.v (operation descriptions) and Model/Logix (a bundle executes as its members in sequence).
Tie (correspondence): a live simulator subprocess; the real client.connector runs generated operation lists (reads, writes,
fragmented, refused ones anywhere, several route paths) under many (depth, multiple, fragment) settings.  Every wire request is
intercepted from outside (connector.unconnected_send wrapped): the bundles actually sent must be the extracted plan, the order of
issue / harvest events the extracted pipeline schedule; and on the implementation alone: one result per operation, in order, with
the same statuses and values under every setting, and each bundle on exactly its operations' route path.  parse_operations /
parse_path / format_path against the extracted text model on generated descriptions."""
import os, socket, struct, subprocess, sys, time
from vlib import core

TAGS = {'T': ('DINT', 8), 'S': ('INT', 6), 'B': ('SINT', 4), 'L': ('INT', 300)}
TYCODE = {'DINT': 196, 'INT': 195, 'SINT': 194}
TYSIZE = {'DINT': 4, 'INT': 2, 'SINT': 1}


def start_simulator():
    s = socket.socket(); s.bind(('127.0.0.1', 0)); port = s.getsockname()[1]; s.close()
    p = subprocess.Popen([sys.executable, '-m', 'cpppo.server.enip', '--no-udp', '-a', '127.0.0.1:%d' % port] +
                         ['%s=%s[%d]' % (k, v[0], v[1]) for k, v in TAGS.items()],
                         stdout=subprocess.DEVNULL, stderr=subprocess.DEVNULL, cwd='/')
    for _ in range(150):
        try:
            c = socket.create_connection(('127.0.0.1', port), timeout=0.5); c.close(); return p, port
        except OSError:
            time.sleep(0.1)
    p.kill()
    raise core.HarnessError('simulator subprocess did not start listening')


def gen_ops(rng):
    """a list of operation dicts (as parse_operations yields them), preceded by writes that fix the whole tag state"""
    ops = []
    for name, (ty, n) in TAGS.items():
        ops.append(dict(path=[{'symbolic': name}, {'element': 0}], elements=n, tag_type=TYCODE[ty], data=[rng.randrange(-100, 100) for _ in range(n)], method='write'))
    routes = [None, None, [{'port': 1, 'link': 0}], [{'port': 1, 'link': 3}]]
    k = rng.randrange(3, 14)
    route = rng.choice(routes)
    for _ in range(k):
        if rng.random() < 0.25:
            route = rng.choice(routes)
        name = rng.choice(list(TAGS)); ty, n = TAGS[name]
        r = rng.random()
        if r < 0.5:
            a = rng.randrange(0, n); cnt = rng.randrange(1, n - a + 1)
            if rng.random() < 0.12:
                a, cnt = n - 1, 3                      # beyond the end: refused with a CIP status
            op = dict(path=[{'symbolic': name}, {'element': a}], elements=cnt, method='read', tag_type=TYCODE[ty])
            if rng.random() < 0.2:
                op['offset'] = 0
        elif r < 0.85:
            a = rng.randrange(0, n); cnt = rng.randrange(1, n - a + 1)
            wty = ty if rng.random() < 0.85 else rng.choice(list(TYCODE))
            op = dict(path=[{'symbolic': name}, {'element': a}], elements=cnt, tag_type=TYCODE[wty], method='write',
                      data=[rng.randrange(-100, 100) for _ in range(cnt)])
        elif r < 0.89:
            # a read larger than one reply can carry (more than 244 INTs), with no byte offset: the same first fragment whether or not the
            # Fragmented service is used
            op = dict(path=[{'symbolic': 'L'}, {'element': rng.choice([0, 10])}], elements=rng.choice([244, 245, 280]), method='read', tag_type=195)
        elif r < 0.93:
            op = dict(path=[{'symbolic': 'NoSuchTag'}], elements=1, method='read')    # refused
        else:
            op = dict(path=[{'symbolic': name}], elements=1, method='read')
        if route is not None:
            op['route_path'] = route
        ops.append(op)
    return ops


def estimate(op):
    """the request / reply size estimates connector.issue documents (independent re-statement)"""
    def datasize(tt, n):
        return {196: 4, 195: 2, 194: 1}.get(tt, 4) * n
    if op.get('method') == 'write' or 'data' in op:
        return 24 + datasize(op.get('tag_type') or 195, len(op['data'])), 4
    return 22, 4 + datasize(op.get('tag_type') or 196, op.get('elements', 1))


class Tap:
    """records what goes on the wire (from outside: the connector instance's unconnected_send is wrapped)"""
    def __init__(self, conn):
        self.conn, self.sent = conn, []
        self.orig = conn.unconnected_send
        conn.unconnected_send = self.send
    def send(self, request, route_path=None, send_path=None, **kw):
        n = len(request.multiple.request) if 'multiple' in request else 1
        self.sent.append((n, route_path, send_path, kw.get('sender_context')))
        return self.orig(request=request, route_path=route_path, send_path=send_path, **kw)
    def close(self):
        self.conn.unconnected_send = self.orig


def run_ops(port, ops, depth, multiple, fragment):
    from cpppo.server.enip import client
    conn = client.connector(host='127.0.0.1', port=port, timeout=5)
    tap = Tap(conn)
    events, results = [], []
    try:
        # trace issue order from outside: wrap the generator the connector's own issue() returns
        orig_issue = conn.issue
        counter = [0]
        def issue(*a, **k):
            for item in orig_issue(*a, **k):
                events.append((0, counter[0])); counter[0] += 1
                yield item
        conn.issue = issue
        err = None
        try:
            with conn:
                for j, (idx, dsc, req, rpy, sts, val) in enumerate(conn.operate([dict(o) for o in ops], depth=depth, multiple=multiple, fragment=fragment, timeout=5)):
                    events.append((1, j))
                    v = list(val) if isinstance(val, (list, tuple)) or hasattr(val, '__iter__') and not isinstance(val, (str, bytes)) else val
                    results.append((idx, sts if not isinstance(sts, tuple) else (sts[0], list(sts[1])), v))
        except Exception as e:
            err = '%s: %s' % (type(e).__name__, str(e)[:120])
    finally:
        tap.close()
        try:
            conn.close()
        except Exception:
            pass
    return results, tap.sent, events, err


NAMECH = 'ABCDEFGHIJKLMNOPQRSTUVWXYZabcdefghijklmnopqrstuvwxyz0123456789_'
TEXTTYPES = {'INT': (195, 2, -32768, 65535), 'DINT': (196, 4, -2 ** 31, 2 ** 32 - 1), 'SINT': (194, 1, -128, 255), 'USINT': (198, 1, 0, 255),
             'UINT': (199, 2, 0, 65535), 'UDINT': (200, 4, 0, 2 ** 32 - 1), 'LINT': (197, 8, -2 ** 63, 2 ** 64 - 1),
             'REAL': (202, 4, -1000, 1000), 'LREAL': (203, 8, -1000, 1000), 'ULINT': (201, 8, 0, 2 ** 64 - 1)}      # (floating types spelled with integral values)


def gen_optext(rng):
    def level():
        nm = ''.join(rng.choice(NAMECH) for _ in range(rng.choice([1, 2, 3, 5, 9, 20])))
        return 'T' + nm if nm[0].isdigit() else nm
    # a tag may have several levels (Program:Main.Line.Motor): one symbolic segment per level
    name = '.'.join(level() for _ in range(rng.choice([1, 1, 1, 2, 3, 4, 5])))
    e = rng.random()
    if e < 0.3:
        elem = None
    elif e < 0.55:
        elem = (rng.choice([0, 1, 9, 10, 99, 1000]), None)
    else:
        a = rng.choice([0, 0, 1, 5, 10, 100]); elem = (a, a + rng.choice([0, 1, 2, 9, 99]))
    write = None
    off = None
    if rng.random() < 0.5:
        ty = rng.choice(list(TEXTTYPES)); code, size, lo, hi = TEXTTYPES[ty]
        cnt = 1 if elem is None or elem[1] is None else elem[1] - elem[0] + 1
        if rng.random() < 0.35 and elem is not None and elem[1] is not None:
            o = rng.randrange(0, cnt)
            off = o * size
            nv = rng.randrange(1, cnt - o + 1)
        else:
            nv = cnt
        write = (ty, [rng.choice([lo, hi, 0, 1, -1 if lo < 0 else 2, rng.randrange(lo, hi + 1)]) for _ in range(min(nv, 12))])
        if len(write[1]) != nv:
            if off is None:
                elem = (elem[0], elem[0] + len(write[1]) - 1) if elem else None
    elif rng.random() < 0.4:
        off = rng.choice([0, 0, 2, 4, 8, 100])
    return name, elem, off, write


def enc_optext(t):
    name, elem, off, write = t
    nm = [ord(c) for c in name]
    out = [len(nm)] + nm
    out += [0, 0, 0] if elem is None else ([1, elem[0], 0] if elem[1] is None else [2, elem[0], elem[1]])
    out += [0, 0] if off is None else [1, off]
    if write is None:
        out += [0]
    else:
        ty = [ord(c) for c in write[0]]
        out += [1, len(ty)] + ty + [len(write[1])] + list(write[1])
    return out


def run(ctx):
    import logging
    logging.getLogger().setLevel(logging.CRITICAL + 10)
    core.import_cpppo()
    from props import enip_common as E
    E.quiet()
    ctx.prove()
    rng = ctx.rng
    cov = ctx.coverage
    ndis, nbad, first = 0, 0, None

    def bad(w, what):
        nonlocal nbad
        nbad += 1
        if nbad <= 4:
            ctx.violation(w, what)

    def dis(d):
        nonlocal ndis, first
        ndis += 1
        first = first or d

    # ---------------- operation text
    from cpppo.server.enip import client, device
    NT = 1500 if ctx.thorough else 300
    texts = [gen_optext(rng) for _ in range(NT)]
    printed = core.run_model('client', [[2] + enc_optext(t) for t in texts])
    strs = [bytes(o[1:1 + o[0]]).decode('ascii') for o in printed]
    parsed = core.run_model('client', [[3, len(s)] + [ord(c) for c in s] for s in strs])
    ntext = 0
    for t, s, mo in zip(texts, strs, parsed):
        name, elem, off, write = t
        if mo[:1] != [1] or mo[1:] != enc_optext(t):
            raise core.HarnessError('text model does not round-trip its own print: %r' % s)
        try:
            got = list(client.parse_operations([s]))[0]
            err = None
        except Exception as e:
            got, err = None, type(e).__name__
        want = dict(path=[{'symbolic': lv} for lv in name.split('.')] + ([{'element': elem[0]}] if elem else []))
        if elem and elem[1] is not None:
            want['elements'] = elem[1] - elem[0] + 1
        if off is not None:
            want['offset'] = off
        if write:
            want['method'] = 'write'
            want['tag_type'] = TEXTTYPES[write[0]][0]
            want['data'] = list(write[1])
            if off is None and 'elements' not in want:
                want['elements'] = len(write[1])
        if got is None:
            bad(dict(text=s, spelled=want, error=err), 'a well-formed operation description was rejected')
        elif got != want:
            dis(dict(part='operation text', text=s, impl=repr(got), model=repr(want)))
            bad(dict(text=s, parsed=repr(got), spelled=repr(want)), 'an operation description does not denote the operation it spells')
        else:
            ntext += 1
    # formatted paths parse back (implementation alone: numeric class is rendered in hex, outside the text model)
    npath = 0
    for _ in range(400 if ctx.thorough else 120):
        if rng.random() < 0.5:
            segs = [{'symbolic': ''.join(rng.choice(NAMECH[:52]) + rng.choice(NAMECH) for _ in range(rng.randrange(1, 6)))} for _ in range(rng.choice([1, 1, 2, 3, 4]))]
        else:
            segs = [{'class': rng.choice([1, 2, 6, 0x6B, 0x1FF, 0xFFFF])}, {'instance': rng.choice([0, 1, 7, 300])}]
            if rng.random() < 0.7:
                segs.append({'attribute': rng.choice([1, 2, 26, 255])})
        cnt = None
        if rng.random() < 0.6:
            segs.append({'element': rng.choice([0, 1, 12, 999])})
            cnt = rng.choice([None, 1, 2, 10])
        txt = client.format_path(segs, count=cnt)
        try:
            back = device.parse_path_elements(txt)
        except Exception as e:
            back = type(e).__name__
        want = (segs, segs[-1].get('element'), cnt if 'element' in segs[-1] else None)
        npath += 1
        if back != want:
            bad(dict(segments=segs, count=cnt, text=txt, parsed=repr(back)), 'a formatted path does not parse back to the same segments')

    # segment sequences whose class / instance / attribute terms are NOT in positions 1 / 2 / 3 (a level skipped or repeated, a connection or
    # port term in front): bare numbers mean class, instance, attribute by position, so these must be spelled out - and parse back
    import itertools
    kinds = [lambda v: {'class': v}, lambda v: {'instance': v}, lambda v: {'attribute': v}, lambda v: {'connection': v}, lambda v: {'port': 1, 'link': v}]
    seqs = [list(t) for n in (1, 2, 3) for t in itertools.product(range(5), repeat=n)]
    for t in (seqs if ctx.thorough else rng.sample(seqs, 60)):
        segs = [kinds[k](rng.choice([1, 2, 3, 7, 100])) for k in t]
        if rng.random() < 0.3:
            segs.append({'element': rng.choice([0, 4])})
        try:
            txt = client.format_path(segs)
            back = list(client.parse_operations([txt]))[0]['path']
        except Exception as ex:
            back = type(ex).__name__; txt = None
        npath += 1
        if back != segs:
            bad(dict(segments=segs, text=txt, parsed=repr(back)), 'a formatted path does not parse back to the same segments')

    # numeric paths spelled with a trailing element term AND an explicit index (@c/i/a/e[x]): a path has at most one element segment
    # (the explicit index), the description parses -> formats -> parses to the same operation
    for _ in range(200 if ctx.thorough else 60):
        c, i, a, e = rng.choice([0x99, 2, 0x6B]), rng.choice([1, 7]), rng.choice([1, 2, 26]), rng.choice([0, 2, 200])
        x = rng.choice([0, 5, 12, 500]); y = x + rng.choice([0, 1, 2])
        txt = '@%s/%d/%d/%d[%s]' % (rng.choice(['0x%02X' % c, str(c)]), i, a, e, '%d' % x if rng.random() < 0.5 else '%d-%d' % (x, y))
        try:
            op = list(client.parse_operations([txt]))[0]
            segs = op['path']
            again = list(client.parse_operations([client.format_path(segs, count=op.get('elements'))]))[0]
        except Exception as ex:
            bad(dict(text=txt, error=type(ex).__name__), 'a numeric path description was rejected'); continue
        npath += 1
        els = [sg for sg in segs if 'element' in sg]
        if len(els) != 1 or els[0]['element'] != x or segs[:3] != [{'class': c}, {'instance': i}, {'attribute': a}]:
            bad(dict(text=txt, parsed=repr(segs)), 'a numeric path description does not denote one element: the explicit index')
        elif again != op:
            bad(dict(text=txt, parsed=repr(op), formatted=client.format_path(segs, count=op.get('elements')), parsed_again=repr(again)),
                'a formatted path does not parse back to the same operation')
    # ---------------- the live client
    proc, port = start_simulator()
    nrun = 0
    nres = 0
    try:
        settings = [(0, 0, False), (1, 0, False), (3, 0, False), (20, 0, False), (0, 120, False), (0, 250, False), (2, 250, False), (5, 500, False),
                    (0, 0, True), (3, 250, True), (1, 100, False), (0, 4000, False)]
        for i in range(40 if ctx.thorough else 9):
            ops = gen_ops(rng)
            base = None
            use = settings if ctx.thorough else [settings[0]] + rng.sample(settings[1:], 5)
            for depth, multiple, fragment in use:
                nrun += 1
                results, sent, events, err = run_ops(port, ops, depth, multiple, fragment)
                w = dict(operations=[{k: v for k, v in o.items()} for o in ops], depth=depth, multiple=multiple, fragment=fragment, error=err,
                         results=[(r[1], r[2]) for r in results][:40], wire=[(n, rp) for n, rp, sp, sc in sent])
                if err or len(results) != len(ops):
                    bad(w, 'the client yielded %d results for %d operations%s' % (len(results), len(ops), ' (%s)' % err if err else '')); continue
                # each bundle went out on exactly its operations' route path
                pos = 0
                for n, rp, sp, sc in sent:
                    grp = ops[pos:pos + n]; pos += n
                    if any(o.get('route_path') != rp for o in grp):
                        bad(w, 'a request carrying %d operation(s) was sent via route path %r, its operations want %r' % (n, rp, [o.get('route_path') for o in grp])); break
                else:
                    if pos != len(ops):
                        bad(w, 'operations on the wire: %d, operations given: %d' % (pos, len(ops))); continue
                vals = [(r[1], r[2]) for r in results]
                if base is None:
                    base = (vals, (depth, multiple, fragment))
                elif vals != base[0] and not fragment:
                    k = next(j for j, (a, b) in enumerate(zip(vals, base[0])) if a != b)
                    bad(dict(w, differs_at_operation=k, this=vals[k], baseline=base[0][k], baseline_setting=base[1]),
                        'statuses / values differ between pipelining / bundling settings'); continue
                elif fragment and [(s, v) for s, v in vals] != base[0]:
                    # fragment=True turns every read / write into the Fragmented service: same statuses and values are expected
                    k = next(j for j, (a, b) in enumerate(zip(vals, base[0])) if a != b)
                    bad(dict(w, differs_at_operation=k, this=vals[k], baseline=base[0][k]), 'statuses / values differ with fragment=True'); continue
                nres += len(results)
                # the bundles on the wire are the model's plan
                ests = [estimate(o) for o in ops]
                routes = {}
                enc = []
                for o, (rq, rp_) in zip(ops, ests):
                    rid = routes.setdefault(repr(o.get('route_path')), len(routes))
                    enc += [rq, rp_, rid, 0]
                (mo,) = core.run_model('client', [[0, multiple, len(ops)] + enc])
                groups = []; x = 1
                for _ in range(mo[0]):
                    ln = mo[x]; groups.append(mo[x + 1:x + 1 + ln]); x += 1 + ln
                if [n for n, *_ in sent] != [len(g) for g in groups]:
                    dis(dict(part='bundling plan', multiple=multiple, wire=[n for n, *_ in sent], model=[len(g) for g in groups],
                             estimates=ests, routes=[o.get('route_path') for o in ops]))
                # the issue / harvest interleaving is the model's schedule
                issued = []
                for gi, g in enumerate(groups):
                    issued += [gi] * len(g)
                (me,) = core.run_model('client', [[1, depth, len(issued)] + issued])
                mev = [(me[1 + 2 * j], me[2 + 2 * j]) for j in range(me[0])]
                if depth and mev != events:
                    dis(dict(part='pipeline schedule', depth=depth, multiple=multiple, impl=events[:30], model=mev[:30]))
        # ---- the proxy layer on top of the connector: typed attribute reads and tag reads of differing types, one write, refused ones;
        # every record (value, attribute, type, units) must be the one the un-bundled synchronous run yields
        from cpppo.server.enip.get_attribute import proxy
        attrs = [('@1/1/1', 'INT'), ('@1/1/7', 'SSTRING'), 'T[0-3]', ('@1/1/6', 'DINT', 'serial'), 'S[1-2]', 'B[0-3]', ('@1/1/4', ('USINT', 'USINT')),
                 'T[6]', ('S[0]', 'INT', 'rpm'), ('@1/1/3', 'INT'), 'NoSuchTag', 'T[7-9]', ('@1/1/2', 'INT')]
        base = None
        for depth, multiple in [(0, 0), (2, 0), (0, 500), (2, 250), (3, 120), (1, 4000)]:
            via = proxy(host='127.0.0.1', port=port, timeout=5, depth=depth, multiple=multiple)
            recs, err = [], None
            try:
                with via:
                    for val, (sts, (att, typ, uni)) in via.read_details(attrs):
                        v = list(val) if hasattr(val, '__iter__') and not isinstance(val, (str, bytes)) else val
                        recs.append((repr(v), repr(sts if not isinstance(sts, tuple) else (sts[0], list(sts[1]))), str(att), repr(typ), uni))
            except Exception as e:
                err = '%s: %s' % (type(e).__name__, str(e)[:100])
            finally:
                via.close_gateway()
            nrun += 1
            if base is None:
                base = (recs, err)
                if err or len(recs) != len(attrs):
                    raise core.HarnessError('proxy baseline failed: %r %r' % (err, recs))
            elif (recs, err) != base:
                k = next((i for i, (a, b) in enumerate(zip(recs, base[0])) if a != b), min(len(recs), len(base[0])))
                bad(dict(api='proxy.read_details', depth=depth, multiple=multiple, error=err, results=len(recs), first_difference_at=k,
                         got=recs[k] if k < len(recs) else None, synchronous=base[0][k] if k < len(base[0]) else None),
                    'proxy results differ between pipelining / bundling settings')
            else:
                nres += len(recs)
    finally:
        proc.terminate()
        try:
            proc.wait(5)
        except Exception:
            proc.kill()
    cov['evaluations'] = NT + npath + nrun
    cov['distinct_nontrivial'] = ntext + nres
    cov['exhaustive'] = False
    cov['rule'] = ('%d generated operation descriptions (names, [i], [a-b], +offset incl. 0, =(TYPE)values over 7 integer types with boundary values) printed by the model and '
                   'parsed by parse_operations; %d formatted paths parsed back; %d runs of the real connector against a simulator subprocess: operation lists of 6-17 operations '
                   '(writes fixing the state, reads, writes, type-mismatched and out-of-range and unknown-tag operations, up to 3 route paths changing along the list) under '
                   '(depth, multiple, fragment) settings from {0,1,2,3,5,20} x {0,100,120,250,500,4000} x {off,on}; %d results compared'
                   % (NT, npath, nrun, nres))
    cov['impl_model_disagreements'] = ndis
    cov['impl_property_failures'] = nbad
    # ---- operations addressed the "simple device" way (route_path=False, send_path='': no Unconnected Send wrapper at all): a bundle carries
    # its operations' paths also when those are falsy values, and the results do not depend on bundling
    proc, port = start_simulator()
    try:
        sops = [dict(path=[{'symbolic': 'T'}, {'element': k % 8}], elements=1, method='read', route_path=False, send_path='') for k in range(5)]
        sops.insert(2, dict(path=[{'symbolic': 'S'}, {'element': 1}], elements=2, tag_type=195, data=[31, 32], method='write', route_path=False, send_path=''))
        sops.append(dict(path=[{'symbolic': 'NoSuchTag'}], elements=1, method='read', route_path=False, send_path=''))
        base = None
        for depth, multiple in ((0, 0), (0, 250), (2, 120), (3, 0)):
            results, sent, events, err = run_ops(port, sops, depth, multiple, False)
            nrun += 1
            w = dict(operations='7 operations with route_path=False, send_path=\'\'', depth=depth, multiple=multiple, error=err, results=[(r[1], r[2]) for r in results],
                     wire=[(n, rp, sp) for n, rp, sp, sc in sent])
            if err or len(results) != len(sops):
                bad(w, 'the client yielded %d results for %d operations addressed without a route path%s' % (len(results), len(sops), ' (%s)' % err if err else '')); break
            if any(rp is not False or sp != '' for n, rp, sp, sc in sent):
                bad(w, 'a request or bundle went out with a route / send path other than its operations\' (route_path=False, send_path=\'\')'); break
            if base is None:
                base = [(r[1], r[2]) for r in results]
            elif [(r[1], r[2]) for r in results] != base:
                bad(dict(w, unbundled=base), 'results differ between bundling settings'); break
    finally:
        proc.terminate()
        try:
            proc.wait(5)
        except Exception:
            proc.kill()
    # ---- "... or raises": the connection ends right after the K-th reply frame (every K): the pipeline raises, or has every result
    from props import c13
    proc, port = start_simulator()
    relay = c13.Relay(port)
    ncut = 0
    try:
        ops = [dict(path=[{'symbolic': 'T'}, {'element': k % 8}], elements=1, method='read') for k in range(7)]
        for depth, multiple in ((3, 0), (1, 0), (2, 120)) if not ctx.thorough else ((3, 0), (1, 0), (0, 0), (2, 120), (5, 250), (20, 0)):
            relay.limit = None
            results, sent, events, err = run_ops(relay.port, ops, depth, multiple, False)
            stream = relay.stream
            if err or len(results) != len(ops):
                bad(dict(depth=depth, multiple=multiple, error=err), 'through a transparent relay the client yielded %d results for %d operations' % (len(results), len(ops))); break
            ends, i = [], 0
            while i + 24 <= len(stream):
                i += 24 + struct.unpack('<H', stream[i + 2:i + 4])[0]; ends.append(i)
            for e in ends[:-1]:
                relay.limit, relay.mode = e, 'cut'
                results, sent, events, err = run_ops(relay.port, ops, depth, multiple, False)
                ncut += 1
                if err is None and len(results) != len(ops):
                    bad(dict(depth=depth, multiple=multiple, connection_closed_after_reply_bytes=e, reply_frames_delivered=ends.index(e) + 1, results=len(results), operations=len(ops)),
                        'the connection closed after %d reply frames and the client returned %d results for %d operations without raising' % (ends.index(e) + 1, len(results), len(ops)))
                    break
    finally:
        relay.close() if hasattr(relay, 'close') else None
        proc.terminate()
        try:
            proc.wait(5)
        except Exception:
            proc.kill()
    cov['runs_with_connection_closed_at_a_reply_boundary'] = ncut
    if ndis and not nbad:
        ctx.unresolved('correspondence client.connector issue / pipeline / parse_operations = Model.Client / Model.OpText', first)
    elif ndis:
        ctx.broken.append('correspondence client.connector issue / pipeline / parse_operations = Model.Client / Model.OpText')
        ctx.notes.append(repr(first)[:1500])
    ctx.sample(dict(example_text=strs[:5]))
    ctx.assumptions += ['the size estimates that drive bundling are re-stated in the harness from issue()\'s docstring (fixed-size types only)',
                        'results are compared across settings on the implementation; their agreement with the array model is C03-C07',
                        'numeric @class/instance/attribute text and JSON segments are checked on the implementation only (hex rendering is outside the text model)']


def replay(ctx, rep):
    print(rep.get('what'), rep.get('witness'))
    return 1
