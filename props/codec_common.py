"""Adapters between three presentations of an EtherNet/IP CIP message (C01, C14, C06):
   sem   : plain Python description produced by the generators (dicts / tuples / bytes)
   tree  : the generic tree view of the reference codec's AST (ints and lists), for the extracted model
   dd    : cpppo dotdicts, as its producers expect them and as its parsers deliver them
"""
import struct
from vlib import core

# ---------------------------------------------------------------------------------------------------------
# tree <-> flat ints
def flat(t):
    if isinstance(t, int):
        return [0, t]
    out = [1, len(t)]
    for x in t:
        out += flat(x)
    return out


def unflat(l, i=0):
    if l[i] == 0:
        return l[i + 1], i + 2
    n = l[i + 1]; i += 2; out = []
    for _ in range(n):
        x, i = unflat(l, i); out.append(x)
    return out, i


# ---------------------------------------------------------------------------------------------------------
# sem -> tree
def seg_tree(s):
    k = s[0]
    if k == 'sym':
        return [0, list(s[1])]
    if k in ('class', 'instance', 'connection', 'attribute', 'element'):
        return [{'class': 1, 'instance': 2, 'connection': 3, 'attribute': 4, 'element': 5}[k], s[1]]
    if k == 'port':
        return [6, s[1], s[2]]
    return [7, s[1], list(s[2])]


def opt_tree(x, f):
    return [] if x is None else [f(x)]


def data_tree(d):
    if d is None:
        return [0, []]
    kind, vals = d
    return [0, list(vals)] if kind == 'z' else [1, [list(v) for v in vals]]


def body_tree(m):
    return [opt_tree(m.get('path'), lambda p: [seg_tree(s) for s in p]),
            [opt_tree(m.get('status'), lambda st: [st[0], list(st[1])]),
             [list(m.get('nums', [])), data_tree(m.get('data'))]]]


def svc1_tree(m):
    return [m['svc'], body_tree(m)]


def cipbody_tree(m):
    if m['svc'] in (10, 138):
        return [1, [opt_tree(m.get('path'), lambda p: [seg_tree(s) for s in p]),
                    [opt_tree(m.get('status'), lambda st: [st[0], list(st[1])]),
                     [svc1_tree(x) for x in m.get('members', [])]]]]
    return [0, body_tree(m)]


def cip_tree(m):
    return [m['svc'], cipbody_tree(m)]


def umsg_tree(u):
    if u['kind'] == 'wrapper':
        w = [[[[seg_tree(s) for s in u['path']], [u['priority'], u['ticks']]], [], cip_tree(u['msg'])],
             [seg_tree(s) for s in u['route']]]
        return [82, [0, w]]
    m = u['msg']
    return [m['svc'], [1, cipbody_tree(m)]]


def item_tree(it):
    return [it['tid'], [], [it.get('num', 0), [list(it.get('raw', b'')), opt_tree(it.get('msg'), umsg_tree)]]]


def frame_tree(f):
    cpf = f.get('cpf')
    return [f['cmd'], [f['session'], [f['status'], [list(f['ctx']), f['options']]]],
            [list(f.get('nums', [])), opt_tree(cpf, lambda c: [item_tree(i) for i in c])]]


# tree -> sem (for decode direction)
def tree_seg(t):
    k = t[0]
    if k == 0:
        return ('sym', bytes(t[1]))
    if 1 <= k <= 5:
        return ({1: 'class', 2: 'instance', 3: 'connection', 4: 'attribute', 5: 'element'}[k], t[1])
    if k == 6:
        return ('port', t[1], t[2])
    return ('porta', t[1], bytes(t[2]))


def tree_body(svc, t):
    m = dict(svc=svc)
    p, (st, (nums, data)) = t
    m['path'] = [tree_seg(s) for s in p[0]] if p else None
    m['status'] = (st[0][0], list(st[0][1])) if st else None
    m['nums'] = list(nums)
    m['data'] = ('z', list(data[1])) if data[0] == 0 else ('s', [bytes(x) for x in data[1]])
    return m


def tree_cip(t):
    svc, (side, b) = t
    if side == 0:
        return tree_body(svc, b)
    p, (st, mem) = b
    return dict(svc=svc, path=[tree_seg(s) for s in p[0]] if p else None,
                status=(st[0][0], list(st[0][1])) if st else None,
                members=[tree_body(x[0], x[1]) for x in mem])


def tree_umsg(t):
    b0, (side, x) = t
    if side == 0:
        (pre, _mid, msg), route = x
        path, (prio, ticks) = pre
        return dict(kind='wrapper', path=[tree_seg(s) for s in path], priority=prio, ticks=ticks,
                    msg=tree_cip(msg), route=[tree_seg(s) for s in route])
    return dict(kind='bare', msg=tree_cip([b0, x]))


def tree_frame(t):
    cmd, (session, (status, (ctx, options))), (nums, cpf) = t
    f = dict(cmd=cmd, session=session, status=status, ctx=bytes(ctx), options=options, nums=list(nums), cpf=None)
    if cpf:
        f['cpf'] = [dict(tid=i[0], num=i[2][0], raw=bytes(i[2][1][0]), msg=tree_umsg(i[2][1][1][0]) if i[2][1][1] else None)
                    for i in cpf[0]]
    return f


# ---------------------------------------------------------------------------------------------------------
# sem -> cpppo dotdict (what the library's producers expect)
TYN = {193: 'BOOL', 194: 'SINT', 195: 'INT', 196: 'DINT', 197: 'LINT', 198: 'USINT', 199: 'UINT', 200: 'UDINT', 201: 'ULINT',
       202: 'REAL', 203: 'LREAL', 218: 'SSTRING', 208: 'STRING'}


def py_value(code, v):
    if code == 193:
        return bool(v)
    if code == 202:
        return struct.unpack('<f', struct.pack('<I', v))[0]
    if code == 203:
        return struct.unpack('<d', struct.pack('<Q', v))[0]
    if code in (218, 208):
        return bytes(v).decode('iso-8859-1')
    return v


def sem_value(code, v):
    if code == 193:
        return 1 if v else 0
    if code == 202:
        return struct.unpack('<I', struct.pack('<f', v))[0]
    if code == 203:
        return struct.unpack('<Q', struct.pack('<d', v))[0]
    if code in (218, 208):
        s = v if isinstance(v, str) else v.get('string') if hasattr(v, 'get') else v
        return s.encode('iso-8859-1')
    return int(v)


def seg_dd(s):
    k = s[0]
    if k == 'sym':
        return {'symbolic': s[1].decode('iso-8859-1')}
    if k in ('class', 'instance', 'connection', 'attribute', 'element'):
        return {k: s[1]}
    if k == 'port':
        return {'port': s[1], 'link': s[2]}
    return {'port': s[1], 'link': s[2].decode('iso-8859-1')}


def dd_seg(d):
    d = dict(d)
    if 'symbolic' in d:
        return ('sym', d['symbolic'].encode('iso-8859-1'))
    for k in ('class', 'instance', 'connection', 'attribute', 'element'):
        if k in d:
            return (k, d[k])
    if 'port' in d:
        return ('port', d['port'], d['link']) if isinstance(d['link'], int) else ('porta', d['port'], d['link'].encode('iso-8859-1'))
    raise ValueError(d)


def path_dd(p):
    from cpppo import dotdict
    return dotdict(segment=[dotdict(seg_dd(s)) for s in p])


def set_status(d, st):
    from cpppo import dotdict
    d.status = st[0]
    if st[1] or st[0]:
        d.status_ext = dotdict(size=len(st[1]), data=list(st[1]))


def cip_dd(m):
    """sem CIP message -> dotdict for Logix.produce"""
    from cpppo import dotdict
    d = dotdict(); svc = m['svc']; d.service = svc
    if m.get('path') is not None:
        d.path = path_dd(m['path'])
    if m.get('status') is not None:
        set_status(d, m['status'])
    nums = m.get('nums', []); data = m.get('data')
    def vals(code):
        return [py_value(code, v) for v in data[1]]
    if svc == 76:
        d.read_tag = dotdict(elements=nums[0])
    elif svc == 82:
        d.read_frag = dotdict(elements=nums[0], offset=nums[1])
    elif svc == 77:
        d.write_tag = dotdict(type=nums[0], elements=nums[1], data=vals(nums[0]))
    elif svc == 83:
        d.write_frag = dotdict(type=nums[0], elements=nums[1], offset=nums[2], data=vals(nums[0]))
    elif svc in (204, 210):
        ctx = 'read_tag' if svc == 204 else 'read_frag'
        d[ctx] = dotdict()
        if nums:
            d[ctx].type = nums[0]; d[ctx].data = vals(nums[0])
    elif svc in (205, 211):
        d['write_tag' if svc == 205 else 'write_frag'] = True
    elif svc in (1, 14):
        d['get_attributes_all' if svc == 1 else 'get_attribute_single'] = True
    elif svc in (129, 142):
        ctx = 'get_attributes_all' if svc == 129 else 'get_attribute_single'
        d[ctx] = dotdict(data=list(data[1])) if m['status'][0] == 0 else True
    elif svc == 16:
        d.set_attribute_single = dotdict(data=list(data[1]))
    elif svc == 144:
        d.set_attribute_single = True
    elif svc == 3:
        d.get_attribute_list = list(data[1][1:])
    elif svc == 131:
        d.get_attribute_list = dotdict(data=list(data[1])) if m['status'][0] == 0 else True
    elif svc in (10, 138):
        d.multiple = dotdict()
        d.multiple.request = [cip_dd(x) for x in m.get('members', [])]
        if svc == 138:
            # the reply producer takes the members' already produced bytes
            from cpppo.server.enip import logix
            for r in d.multiple.request:
                r.input = bytearray(logix.Logix.produce(r))
    else:
        raise ValueError('service %r' % svc)
    return d


def dd_cip(d, reply_of=None):
    """parsed dotdict -> sem CIP message"""
    svc = d['service']
    m = dict(svc=svc, path=None, status=None, nums=[], data=('z', []))
    if 'path' in d and svc < 128:
        m['path'] = [dd_seg(s) for s in d['path']['segment']]
    if svc >= 128:
        ext = list(d.get('status_ext.data', []) or [])
        m['status'] = (d.get('status', 0), ext)
    def data_of(ctx, code):
        vals = d.get(ctx + '.data')
        if vals is None:
            return ('s', []) if code in (218, 208) else ('z', [])
        return ('s' if code in (218, 208) else 'z', [sem_value(code, v) for v in vals])
    if svc == 76:
        m['nums'] = [d['read_tag.elements']]
    elif svc == 82:
        m['nums'] = [d['read_frag.elements'], d['read_frag.offset']]
    elif svc == 77:
        t = d['write_tag.type']; m['nums'] = [t, d['write_tag.elements']]; m['data'] = data_of('write_tag', t)
    elif svc == 83:
        t = d['write_frag.type']; m['nums'] = [t, d['write_frag.elements'], d['write_frag.offset']]; m['data'] = data_of('write_frag', t)
    elif svc in (204, 210):
        ctx = 'read_tag' if svc == 204 else 'read_frag'
        if d.get('status') in (0, 6):
            t = d[ctx + '.type']; m['nums'] = [t]; m['data'] = data_of(ctx, t)
    elif svc in (129, 142):
        ctx = 'get_attributes_all' if svc == 129 else 'get_attribute_single'
        if d.get('status') == 0:
            m['data'] = ('z', list(d.get(ctx + '.data') or []))
    elif svc == 16:
        m['data'] = ('z', list(d.get('set_attribute_single.data') or []))
    elif svc == 3:
        ids = list(d.get('get_attribute_list') or [])
        m['data'] = ('z', [len(ids)] + ids)
    elif svc == 131:
        if d.get('status') == 0:
            m['data'] = ('z', list(d.get('get_attribute_list.data') or []))
    elif svc in (10, 138):
        del m['nums'], m['data']
        m['members'] = [dd_cip(r) for r in d.get('multiple.request', [])]
    return m


# ---------------------------------------------------------------------------------------------------------
# whole frames through cpppo
def frame_dd(f):
    """sem frame -> (dotdict data.enip ready for CIP.produce + enip_encode)"""
    from cpppo import dotdict
    from cpppo.server.enip import logix, parser
    e = dotdict()
    e.command = f['cmd']; e.session_handle = f['session']; e.status = f['status']; e.options = f['options']
    e.sender_context = dotdict(input=bytearray(f['ctx']))
    cmd = f['cmd']
    def cpf_dd(items):
        c = dotdict()
        if not items:
            c.count = 0
            return c
        c.item = []
        for it in items:
            i = dotdict(type_id=it['tid'])
            if it['tid'] == 178:
                u = it['msg']; us = dotdict()
                if u['kind'] == 'wrapper':
                    us.service = 0x52; us.status = 0; us.priority = u['priority']; us.timeout_ticks = u['ticks']
                    us.path = path_dd(u['path'])
                    # an empty route path is `00 00` on the wire however the caller spells it: {'segment': []}, an empty list, or no key at all
                    how = 0 if u['route'] else (u['ticks'] // 100 + u['priority']) % 3
                    if how == 0:
                        us.route_path = path_dd(u['route'])
                    elif how == 1:
                        us.route_path = []
                us.request = cip_dd(u['msg'])
                us.request.input = bytearray(logix.Logix.produce(us.request))
                i.unconnected_send = us
            elif it['tid'] == 161:
                i.connection_ID = dotdict(connection=it['num'])
            elif it['tid'] == 177:
                cd = dotdict(sequence=it['num'])
                cd.request = cip_dd(it['msg']['msg'])
                cd.request.input = bytearray(logix.Logix.produce(cd.request))
                i.connection_data = cd
            elif it['tid'] != 0:
                i.input = bytearray(it['raw'])
            c.item.append(i)
        return c
    cip = dotdict()
    if cmd == 101:
        cip.register = dotdict(protocol_version=f['nums'][0], options=f['nums'][1])
    elif cmd == 102:
        cip.unregister = True
    elif cmd in (111, 112):
        cip.send_data = dotdict(interface=f['nums'][0], timeout=f['nums'][1])
        cip.send_data.CPF = cpf_dd(f['cpf'])
    else:
        name = {4: 'list_services', 99: 'list_identity', 100: 'list_interfaces', 1: 'legacy'}[cmd]
        cip[name] = dotdict()
        if f.get('cpf') is not None:
            cip[name].CPF = cpf_dd(f['cpf'])
    e.CIP = cip
    return e


def impl_produce_frame(f):
    from cpppo.server.enip import parser
    e = frame_dd(f)
    e.input = bytearray(parser.CIP.produce(e))
    return bytes(parser.enip_encode(e))


def impl_reproduce(f1, f2):
    """A message dict used as a template: produced for f1, then - the SAME dicts - given f2's field values item by item (whatever the first
    produce left in them, e.g. an item's rendered .input, stays) and produced again.  -> bytes, which must be the bytes of f2"""
    from cpppo.server.enip import parser
    e = frame_dd(f1)
    e.input = bytearray(parser.CIP.produce(e))
    parser.enip_encode(e)
    e2 = frame_dd(f2)
    for k in ('command', 'session_handle', 'status', 'options'):
        e[k] = e2[k]
    e.sender_context.input = e2.sender_context.input
    its1 = e.CIP[next(iter(dict.keys(e.CIP)))].CPF.item
    its2 = e2.CIP[next(iter(dict.keys(e2.CIP)))].CPF.item
    for k in dict.keys(e2.CIP[next(iter(dict.keys(e2.CIP)))]):
        if k != 'CPF':
            e.CIP[next(iter(dict.keys(e.CIP)))][k] = e2.CIP[next(iter(dict.keys(e2.CIP)))][k]
    for i1, i2 in zip(its1, its2):
        for k in list(dict.keys(i2)):
            if k != 'input':
                i1[k] = i2[k]
    e.input = bytearray(parser.CIP.produce(e))
    return bytes(parser.enip_encode(e))


def impl_produce_cip(m):
    from cpppo.server.enip import logix
    return bytes(logix.Logix.produce(cip_dd(m)))


def run_machine(machine, data_bytes, data=None, **kw):
    import cpppo
    from cpppo import dotdict
    src = cpppo.peekable(bytes(data_bytes))
    d = dotdict() if data is None else data
    with machine as m:
        for _ in m.run(source=src, data=d, **kw):
            pass
        term = m.terminal
    return d, term, src


def impl_parse_cip(bs):
    """Logix dialect parser on one CIP message -> sem (or exception name)"""
    from cpppo.server.enip import logix, device
    device.lookup_reset(); logix.setup_reset()
    logix.setup()
    mr = device.lookup(2, 1)
    d, term, src = run_machine(mr.parser, bs)
    if src.peek() is not None:
        raise ValueError('unconsumed input')
    return dd_cip(d)


def impl_parse_frame(wire):
    """enip_machine + CIP parser + dialect parser on the carried request -> sem frame"""
    from cpppo.server.enip import parser, logix, device
    from cpppo import dotdict
    d, term, src = run_machine(parser.enip_machine(), wire)
    left = len(wire) - src.sent
    e = d.enip
    f = dict(cmd=e.command, session=e.session_handle, status=e.status, ctx=bytes(e.sender_context.input), options=e.options,
             nums=[], cpf=None)
    cd, _, s2 = run_machine(parser.CIP(), bytes(e.get('input', b'')), data=e)
    if s2.peek() is not None:
        raise ValueError('CIP parser left input')
    cip = e.get('CIP') or dotdict()
    def items_of(cpf):
        if cpf is None or ('item' not in cpf and 'count' not in cpf):
            return None
        out = []
        for it in cpf.get('item', []):
            t = it.type_id
            x = dict(tid=t, num=0, raw=b'', msg=None)
            if t == 178:
                us = it.unconnected_send
                device.lookup_reset(); logix.setup_reset(); logix.setup()
                rd, _, s3 = run_machine(device.lookup(2, 1).parser, bytes(us.request.input))
                if s3.peek() is not None:
                    raise ValueError('request parser left input')
                msg = dd_cip(rd)
                if us.get('service') == 0x52:
                    x['msg'] = dict(kind='wrapper', path=[dd_seg(s) for s in us.path.segment], priority=us.priority,
                                    ticks=us.timeout_ticks, msg=msg, route=[dd_seg(s) for s in us.get('route_path.segment', [])])
                else:
                    x['msg'] = dict(kind='bare', msg=msg)
            elif t == 161:
                x['num'] = it.connection_ID.connection
            elif t == 177:
                device.lookup_reset(); logix.setup_reset(); logix.setup()
                rd, _, s3 = run_machine(device.lookup(2, 1).parser, bytes(it.connection_data.request.input))
                x['num'] = it.connection_data.sequence
                x['msg'] = dict(kind='bare', msg=dd_cip(rd))
            elif t != 0:
                x['raw'] = bytes(it.get('input', b''))
            out.append(x)
        return out
    if e.command == 101:
        f['nums'] = [cip.register.protocol_version, cip.register.options]
    elif e.command in (111, 112):
        f['nums'] = [cip.send_data.interface, cip.send_data.timeout]
        f['cpf'] = items_of(cip.send_data.get('CPF'))
    elif e.command != 102:
        name = {4: 'list_services', 99: 'list_identity', 100: 'list_interfaces', 1: 'legacy'}.get(e.command)
        if name and name in cip:
            f['cpf'] = items_of(cip[name].get('CPF'))
    return f, left


# ---------------------------------------------------------------------------------------------------------
# Connection Manager services (Forward Open / Close)
def ncp_model(large, params):
    return core.run_model('codec', [[12, 1 if large else 0, 0] + list(params)])[0][0]


def fo_tree(m, ncp_ot, ncp_to, large):
    """sem Forward Open request -> cm tree"""
    nums = [m['prio'], m['ticks'], m['ot'][0], m['to'][0], m['serial'], m['vendor'], m['oserial'], m['mult'], 0, 0, 0,
            m['ot'][1], ncp_ot, m['to'][1], ncp_to, m['transport']]
    return [91 if large else 84, [[[seg_tree(s) for s in m['path']]], [[], [nums, [[[seg_tree(s) for s in m['cpath']]], []]]]]]


def fo_dd(m):
    from cpppo import dotdict
    d = dotdict(); d.path = path_dd(m['path'])
    fo = dotdict(priority_time_tick=m['prio'], timeout_ticks=m['ticks'], connection_serial=m['serial'], O_vendor=m['vendor'],
                 O_serial=m['oserial'], connection_timeout_multiplier=m['mult'], transport_class_triggers=m['transport'])
    for k, key in (('ot', 'O_T'), ('to', 'T_O')):
        cid, rpi, (size, var, prio, typ, red) = m[k]
        fo[key] = dotdict(connection_ID=cid, RPI=rpi, size=size, variable=var, priority=prio, type=typ, redundant=red)
    fo.connection_path = path_dd(m['cpath'])
    d.forward_open = fo
    return d


def impl_produce_fo(m):
    from cpppo.server.enip import device
    return bytes(device.Connection_Manager.produce(fo_dd(m)))


def impl_parse_fo(bs):
    """-> dict of the parsed Forward Open request fields, NCPs decoded by defaults.Connection"""
    from cpppo.server.enip import logix, device, defaults
    device.lookup_reset(); logix.setup_reset(); logix.setup()
    cm = device.lookup(6, 1)
    d, term, src = run_machine(cm.parser, bs)
    if src.peek() is not None:
        raise ValueError('unconsumed input')
    fo = d.forward_open
    out = dict(svc=d.service, path=[dd_seg(s) for s in d.path.segment], prio=fo.priority_time_tick, ticks=fo.timeout_ticks,
               serial=fo.connection_serial, vendor=fo.O_vendor, oserial=fo.O_serial, mult=fo.connection_timeout_multiplier,
               transport=fo.transport_class_triggers, cpath=[dd_seg(s) for s in fo.connection_path.segment])
    large = d.service == 0x5b
    for k, key in (('ot', 'O_T'), ('to', 'T_O')):
        c = fo[key]
        dec = defaults.Connection(NCP=c.NCP, large=large).decoding
        out[k] = (c.connection_ID, c.RPI, (dec.size, dec.variable, dec.priority, dec.type, dec.redundant))
    return out


# ---- Connection Manager replies and Forward Close (sem: dict with 'kind') ---------------------------------------------
def cm_tree(m):
    k = m['kind']
    if k == 'fo_ok':
        return [m['svc'], [[], [[[0, []]], [[m['otid'], m['toid'], m['serial'], m['vendor'], m['oserial'], m['otapi'], m['toapi']], [[], list(m['app'])]]]]]
    if k == 'fo_fail':
        tail = [] if m['rps'] is None else [m['rps'], 0]
        return [m['svc'], [[], [[[m['status'][0], list(m['status'][1])]], [[m['serial'], m['vendor'], m['oserial']], [[], tail]]]]]
    if k == 'fc_req':
        return [0x4E, [[[seg_tree(s) for s in m['path']]], [[], [[m['prio'], m['ticks'], m['serial'], m['vendor'], m['oserial']],
                                                                  [[[seg_tree(s) for s in m['cpath']]], []]]]]]
    if k == 'fc_ok':
        return [0xCE, [[], [[[0, []]], [[m['serial'], m['vendor'], m['oserial']], [[], list(m['app'])]]]]]
    if k == 'fc_min':
        return [0xCE, [[], [[[m['status'][0], list(m['status'][1])]], [[], [[], []]]]]]
    raise ValueError(k)


def cm_dd(m):
    from cpppo import dotdict
    k = m['kind']
    d = dotdict()
    if k in ('fo_ok', 'fo_fail'):
        d.service = m['svc']
        fo = dotdict(connection_serial=m['serial'], O_vendor=m['vendor'], O_serial=m['oserial'])
        if k == 'fo_ok':
            set_status(d, (0, []))
            fo.O_T = dotdict(connection_ID=m['otid'], API=m['otapi']); fo.T_O = dotdict(connection_ID=m['toid'], API=m['toapi'])
            fo.application = dotdict(data=list(m['app']))
        else:
            set_status(d, m['status'])
            if m['rps'] is not None:
                fo.remaining_path_size = m['rps']
        d.forward_open = fo
    elif k == 'fc_req':
        d.path = path_dd(m['path'])
        d.forward_close = dotdict(priority_time_tick=m['prio'], timeout_ticks=m['ticks'], connection_serial=m['serial'], O_vendor=m['vendor'],
                                  O_serial=m['oserial'], connection_path=path_dd(m['cpath']))
    elif k == 'fc_ok':
        d.service = 0xCE; set_status(d, (0, []))
        d.forward_close = dotdict(connection_serial=m['serial'], O_vendor=m['vendor'], O_serial=m['oserial'], application=dotdict(data=list(m['app'])))
    else:
        d.service = 0xCE; set_status(d, m['status'])
    return d


def impl_produce_cm(m):
    from cpppo.server.enip import device
    return bytes(device.Connection_Manager.produce(cm_dd(m)))


def impl_parse_cm(bs):
    """-> sem of a parsed Connection Manager reply / Forward Close request"""
    from cpppo.server.enip import logix, device
    device.lookup_reset(); logix.setup_reset(); logix.setup()
    cm = device.lookup(6, 1)
    d, term, src = run_machine(cm.parser, bs)
    if src.peek() is not None or not term:
        raise ValueError('unconsumed input')
    svc = d.service
    st = (d.get('status', 0), list(d.status_ext.data) if 'status_ext' in d and d.status_ext.get('data') is not None else [])
    if svc in (0xD4, 0xDB):
        fo = d.forward_open
        if st[0] == 0:
            return dict(kind='fo_ok', svc=svc, otid=fo.O_T.connection_ID, toid=fo.T_O.connection_ID, serial=fo.connection_serial, vendor=fo.O_vendor,
                        oserial=fo.O_serial, otapi=fo.O_T.API, toapi=fo.T_O.API, app=bytes(bytearray(fo.application.data)))
        return dict(kind='fo_fail', svc=svc, status=st, serial=fo.connection_serial, vendor=fo.O_vendor, oserial=fo.O_serial,
                    rps=fo.get('remaining_path_size'))
    if svc == 0x4E:
        fc = d.forward_close
        return dict(kind='fc_req', path=[dd_seg(x) for x in d.path.segment], prio=fc.priority_time_tick, ticks=fc.timeout_ticks,
                    serial=fc.connection_serial, vendor=fc.O_vendor, oserial=fc.O_serial, cpath=[dd_seg(x) for x in fc.connection_path.segment])
    if svc == 0xCE:
        fc = d.get('forward_close')
        if isinstance(fc, dict) and 'connection_serial' in fc:
            return dict(kind='fc_ok', serial=fc.connection_serial, vendor=fc.O_vendor, oserial=fc.O_serial, app=bytes(bytearray(fc.application.data)))
        return dict(kind='fc_min', status=st)
    raise ValueError('service 0x%02x' % svc)
