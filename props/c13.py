"""C13 — under any connection fault the client never pairs a reply with the wrong request.
Theorems: coq/Properties/C13.v over coq/Model/Harvest.v (reply matching) with Model/Framing.v deciding which reply frames
a cut stream completes.
Tie / observation: a simulator subprocess behind a fault-injecting TCP relay (thread) that delivers exactly N bytes of the
server-to-client stream and then cuts the connection (or goes silent).  For cut positions over the whole reply stream of a
pipelined exchange (every frame boundary, and a sample / all of the other offsets), for connector.pipeline, connector.operate
(synchronous) and proxy.read: the results yielded before the failure must be exactly the first results of the fault-free run
(never another request's value, never a value from an incompletely received reply); a result stream that ends without an
exception must be complete; their number must be what the extracted framing + harvest models predict for N delivered bytes;
after a failure the proxy has discarded its connection and the next use reconnects and returns correct data."""
import os, socket, struct, subprocess, sys, threading, time
from vlib import core


class Relay:
    """TCP relay: the next connection delivers `limit` bytes server->client, then cuts (mode 'cut') or goes silent ('mute')"""
    def __init__(self, target_port):
        self.target = target_port
        self.limit, self.mode = None, 'cut'
        self.live = None
        self.faulty, self.accepted = 0, 0
        self.delivered = 0
        self.stream = b''
        self.ls = socket.socket(); self.ls.setsockopt(socket.SOL_SOCKET, socket.SO_REUSEADDR, 1)
        self.ls.bind(('127.0.0.1', 0)); self.ls.listen(8)
        self.port = self.ls.getsockname()[1]
        self.alive = True
        threading.Thread(target=self.run, daemon=True).start()

    def run(self):
        while self.alive:
            try:
                c, _ = self.ls.accept()
            except OSError:
                return
            try:
                b = socket.create_connection(('127.0.0.1', self.target), timeout=5)
            except OSError:
                c.close(); continue
            limit, mode = self.limit, self.mode
            if self.faulty:
                self.faulty -= 1; limit, mode = 10, 'cut'          # this connection too is cut, inside the Register reply
            self.accepted += 1
            self.delivered = 0; self.stream = b''
            threading.Thread(target=self.up, args=(c, b), daemon=True).start()
            threading.Thread(target=self.down, args=(b, c, limit, mode), daemon=True).start()

    def up(self, c, b):
        try:
            while True:
                d = c.recv(4096)
                if not d:
                    break
                b.sendall(d)
        except OSError:
            pass
        finally:
            try:
                b.shutdown(socket.SHUT_WR)
            except OSError:
                pass

    def down(self, b, c, limit, mode):
        if mode == 'drop':
            return self.down_drop(b, c, limit)
        try:
            while True:
                d = b.recv(4096)
                if not d:
                    break
                if self.live is not None:
                    limit, mode = self.live, 'cut'          # a cut position set while the connection is already up
                if limit is not None:
                    room = limit - self.delivered
                    if len(d) >= room:
                        if room > 0:
                            c.sendall(d[:room]); self.delivered += room; self.stream += d[:room]
                        if mode == 'cut':
                            break
                        while b.recv(4096):         # mute: swallow the rest, keep the client side open
                            pass
                        time.sleep(3)
                        break
                c.sendall(d); self.delivered += len(d); self.stream += d
        except OSError:
            pass
        finally:
            for s in (c, b):
                try:
                    s.shutdown(socket.SHUT_RDWR)
                except OSError:
                    pass
                s.close()

    def down_drop(self, b, c, k):
        """forward whole frames, silently losing frame number k (or every frame in the set k): a device that skips replies; the
        connection stays up"""
        buf, idx = b'', 0
        lost = k if isinstance(k, (set, frozenset)) else {k}
        try:
            while True:
                d = b.recv(4096)
                if not d:
                    break
                buf += d
                while len(buf) >= 24 and len(buf) >= 24 + struct.unpack('<H', buf[2:4])[0]:
                    n = 24 + struct.unpack('<H', buf[2:4])[0]
                    f, buf = buf[:n], buf[n:]
                    if idx not in lost:
                        c.sendall(f); self.delivered += n; self.stream += f
                    idx += 1
        except OSError:
            pass
        finally:
            for sk in (c, b):
                try:
                    sk.shutdown(socket.SHUT_RDWR)
                except OSError:
                    pass
                sk.close()

    def close(self):
        self.alive = False
        try:
            self.ls.close()
        except OSError:
            pass


def start_simulator():
    s = socket.socket(); s.bind(('127.0.0.1', 0)); port = s.getsockname()[1]; s.close()
    p = subprocess.Popen([sys.executable, '-m', 'cpppo.server.enip', '--no-udp', '-a', '127.0.0.1:%d' % port, 'SCADA=INT[100]', 'D=DINT[10]'],
                         stdout=subprocess.DEVNULL, stderr=subprocess.DEVNULL, cwd='/')
    for _ in range(150):
        try:
            c = socket.create_connection(('127.0.0.1', port), timeout=0.5); c.close(); return p, port
        except OSError:
            time.sleep(0.1)
    p.kill()
    raise core.HarnessError('simulator subprocess did not start listening')


TAGS = ['SCADA[0-3]', 'D[2]', 'SCADA[10-14]', 'D[0-9]', 'SCADA[99]', 'SCADA[20-21]']


def canon(v):
    return list(v) if hasattr(v, '__iter__') and not isinstance(v, (str, bytes)) else v


def use_connector(port, how, multiple=0, tags=None, depth=3):
    """-> (results [(status, value)], error name | None)"""
    from cpppo.server.enip import client
    res, err = [], None
    conn = None
    try:
        conn = client.connector(host='127.0.0.1', port=port, timeout=1.0)
        ops = list(client.parse_operations(tags or TAGS))
        with conn:
            if how == 'pipeline':
                gen = conn.pipeline(operations=ops, depth=depth, multiple=multiple, timeout=1.0)
            else:
                gen = conn.operate(ops, depth=0, multiple=multiple, timeout=1.0)
            for idx, dsc, req, rpy, sts, val in gen:
                res.append((sts, canon(val)))
    except Exception as e:
        err = type(e).__name__
    finally:
        if conn is not None:
            try:
                conn.close()
            except Exception:
                pass
    return res, err


def frames_in(stream):
    """complete frames in a server->client byte prefix (independent of cpppo)"""
    n, i = 0, 0
    while len(stream) - i >= 24:
        ln = struct.unpack('<H', stream[i + 2:i + 4])[0]
        if len(stream) - i < 24 + ln:
            break
        i += 24 + ln; n += 1
    return n, len(stream) - i


def run(ctx):
    import logging
    logging.getLogger().setLevel(logging.CRITICAL + 10)
    core.import_cpppo()
    from props import enip_common as E, c02
    E.quiet()
    ctx.prove()
    rng = ctx.rng
    cov = ctx.coverage
    nbad, ndis, first = 0, 0, None
    ncut = 0
    nnontriv = 0

    def bad(w, what):
        nonlocal nbad
        nbad += 1
        if nbad <= 4:
            ctx.violation(w, what)

    proc, port = start_simulator()
    relay = Relay(port)
    try:
        # make the tags distinguishable, through a direct connection
        from cpppo.server.enip import client
        with client.connector(host='127.0.0.1', port=port, timeout=3) as c0:
            setup = list(client.parse_operations(['SCADA[0-99]=(INT)' + ','.join(str(1000 + i) for i in range(100)), 'D[0-9]=(DINT)' + ','.join(str(70000 + i) for i in range(10))]))
            list(c0.operate(setup, depth=0, timeout=3))
        for how, multiple in (('pipeline', 0), ('synchronous', 0), ('pipeline', 250)):
            relay.limit = None
            expect, err = use_connector(relay.port, how, multiple)
            total = relay.delivered
            full = relay.stream
            if err or len(expect) != len(TAGS):
                raise core.HarnessError('fault-free run failed: %r %r' % (err, expect))
            # frame boundaries of the fault-free reply stream
            bounds, i = [], 0
            while i < len(full):
                i += 24 + struct.unpack('<H', full[i + 2:i + 4])[0]; bounds.append(i)
            offs = set(bounds) | {0, 1, 23, 24, total - 1}
            step = 1 if ctx.thorough else 9
            offs |= set(range(0, total, step))
            if not ctx.thorough:
                offs |= {b + d for b in bounds for d in (-1, 1, 2, 24) if 0 <= b + d < total}
            for n in sorted(offs):
                for mode in (('cut',) if (not ctx.thorough and n not in bounds) else ('cut', 'mute')):
                    if mode == 'mute' and how == 'synchronous' and n not in bounds:
                        continue
                    relay.limit, relay.mode = n, mode
                    got, err = use_connector(relay.port, how, multiple)
                    ncut += 1
                    w = dict(api=how, multiple=multiple, delivered_bytes=n, of=total, mode=mode, frame_boundaries=bounds, results=got, error=err, expected=expect)
                    if got != expect[:len(got)]:
                        bad(w, 'a yielded result is not the correct result of its own request'); continue
                    if err is None and len(got) != len(expect):
                        bad(w, 'the result stream ended without an error after %d of %d results' % (len(got), len(expect))); continue
                    # what the models predict for n delivered bytes: complete reply frames (minus the Register reply), each
                    # carrying one operation (multiple=0) -> that many results, then Raised unless all arrived
                    k, partial = frames_in(full[:n])
                    (mf, mrest), = c02.model_frames([[full[:n]]] if n else [[]])
                    if len(mf) != k or len(mrest) != partial:
                        raise core.HarnessError('framing model disagrees with the harness at %d' % n)
                    if multiple == 0:
                        want = max(0, k - 1)
                        if len(got) != want or (err is None) != (want == len(expect)):
                            ndis += 1
                            first = first or dict(w, part='Model.Framing + Model.Harvest prediction', predicted_results=want, predicted_error=want != len(expect))
                        else:
                            nnontriv += 1
                    else:
                        nnontriv += 1
        # ---- one whole reply frame lost (the connection stays up): bundles of several sizes, every frame in turn.  The replies that
        # follow the lost one must never be handed out as the results of the requests before them
        combos = [(m, n) for m in (120, 140, 170, 250, 0) for n in range(2, len(TAGS) + 1)]
        if not ctx.thorough:
            combos = [(140, 3), (140, 4), (140, 5), (170, 6), (120, 6), (250, 5), (0, 3)] + rng.sample(combos, 3)
        # (also with operations the device refuses - unknown tag, range beyond the tag - next to the lost reply: an error reply is as much
        # some particular request's reply as a value is)
        FAILTAGS = ['SCADA[0-3]', 'NoSuchTag', 'D[2]', 'SCADA[98-105]', 'D[0-9]', 'AlsoMissing[3]']
        combos = [(m, n, False) for m, n in combos] + [(0, 4, True), (0, 6, True), (250, 6, True)]
        for multiple, n, failing in combos:
            tags = (FAILTAGS if failing else TAGS)[:n]
            relay.limit, relay.mode = None, 'cut'
            expect, err = use_connector(relay.port, 'pipeline', multiple, tags)
            nframes = frames_in(relay.stream)[0]
            if err or len(expect) != n:
                raise core.HarnessError('fault-free run failed: %r %r' % (err, expect))
            for k in range(1, nframes):
                relay.limit, relay.mode = k, 'drop'
                got, err = use_connector(relay.port, 'pipeline', multiple, tags)
                ncut += 1
                w = dict(api='pipeline', multiple=multiple, operations=tags, lost_reply_frame=k, of=nframes, results=got, error=err, expected=expect)
                if got != expect[:len(got)]:
                    bad(w, 'after a lost reply frame a yielded result is not the correct result of its own request'); continue
                if err is None and len(got) != len(expect):
                    bad(w, 'the result stream ended without an error after %d of %d results' % (len(got), len(expect))); continue
                nnontriv += 1
        # ---- a run of consecutive replies lost from a deep pipeline: the next reply to arrive belongs to a request ten or more places
        # on - its sender context ("10") merely begins like the awaited one ("1") - and must not be taken for it
        many = ['SCADA[%d]' % i for i in range(14)]
        relay.limit, relay.mode = None, 'cut'
        expect, err = use_connector(relay.port, 'pipeline', 0, many, depth=14)
        if err or len(expect) != len(many):
            raise core.HarnessError('fault-free deep pipeline failed: %r %r' % (err, expect))
        # frame 0 is the Register Session reply; reply to request i is frame i + 1
        for lo, hi in ((1, 9), (2, 10), (1, 12), (0, 9), (3, 9)):
            relay.limit, relay.mode = frozenset(range(lo + 1, hi + 2)), 'drop'
            got, err = use_connector(relay.port, 'pipeline', 0, many, depth=14)
            ncut += 1
            w = dict(api='pipeline', depth=14, operations=many, lost_replies_to_requests=[lo, hi], results=got, error=err, expected=expect)
            if got != expect[:len(got)]:
                bad(w, 'after a run of lost replies a yielded result is not the correct result of its own request'); continue
            if err is None and len(got) != len(expect):
                bad(w, 'the result stream ended without an error after %d of %d results' % (len(got), len(expect))); continue
            nnontriv += 1
        # ---- the proxy layer: discard on failure, reconnect on next use
        from cpppo.server.enip.get_attribute import proxy
        tags = ['SCADA[1]', 'D[3]', 'SCADA[50-52]']
        relay.limit = None
        via = proxy(host='127.0.0.1', port=relay.port, timeout=1.0, depth=2)
        try:
            with via:
                good = [canon(v) for v in via.read(tags)]
        finally:
            via.close_gateway()
        if good != [[1001], [70003], [1050, 1051, 1052]]:
            raise core.HarnessError('fault-free proxy.read returned %r' % (good,))
        ptotal = relay.delivered
        pstream = relay.stream
        pstarts, i = [], 0
        while i < len(pstream):
            pstarts.append(i); i += 24 + struct.unpack('<H', pstream[i + 2:i + 4])[0]
        # every k-th offset, and the field boundaries of every reply's header (where an interrupted parse ends differently)
        poffs = sorted(set(range(0, ptotal, 1 if ctx.thorough else 13)) | {28, 29, ptotal - 1} | {b + d for b in pstarts for d in (2, 4, 8, 12, 20, 24) if b + d < ptotal})
        # ... and replies that stop arriving strictly inside a frame while the connection stays up (the proxy's timeout expires)
        inside = [n for n in poffs if n > 28 and n not in pstarts]
        moffs = inside if ctx.thorough else [inside[k] for k in sorted({0, len(inside) // 3, len(inside) // 2, len(inside) - 2, len(inside) - 1})]
        for n, mode in [(n, 'cut') for n in poffs] + [(n, 'mute') for n in moffs]:
            relay.limit, relay.mode = n, mode
            via = proxy(host='127.0.0.1', port=relay.port, timeout=1.0 if mode == 'cut' else 0.4, depth=2)
            got, err = [], None
            try:
                with via:
                    for v in via.read(tags):
                        got.append(canon(v))
            except Exception as e:
                err = type(e).__name__
            ncut += 1
            w = dict(api='proxy.read', delivered_bytes=n, of=ptotal, fault=mode, results=got, error=err, expected=good)
            if got != good[:len(got)] or (err is None and len(got) != len(good)):
                bad(w, 'proxy.read yielded wrong or silently fewer results under a cut connection'); via.close_gateway(); continue
            if err is not None and via.gateway is not None:
                bad(w, 'after a failed use the proxy did not discard its connection'); via.close_gateway(); continue
            relay.limit, relay.mode = None, 'cut'
            try:
                with via:
                    again = [canon(v) for v in via.read(tags)]
            except Exception as e:
                again = type(e).__name__
            if again != good:
                bad(dict(w, next_use=again), 'the use after a failure did not reconnect and return correct data')
            else:
                nnontriv += 1
            via.close_gateway()
        # ---- a fault while the gateway is being OPENED, a recovery, then a fault during a read on the recovered gateway: the proxy must
        # discard that connection too and reconnect on the next use
        for first_cut in ((0, 10, 28 + 7, 28 + 40) if ctx.thorough else (10, 28 + 7)):
            via = proxy(host='127.0.0.1', port=relay.port, timeout=1.0, depth=2)
            try:
                relay.live, relay.limit, relay.mode = None, first_cut, 'cut'
                e1 = None
                try:
                    with via:
                        list(via.read(tags))
                except Exception as e:
                    e1 = type(e).__name__
                ncut += 1
                w = dict(api='proxy', sequence='cut while opening / recover / cut during read / next use', first_cut_at=first_cut, first_error=e1)
                if e1 is None:
                    bad(w, 'proxy.read returned although the connection was cut while the gateway was being opened'); continue
                relay.limit = None
                try:
                    with via:
                        rec = [canon(v) for v in via.read(tags)]
                except Exception as e:
                    rec = type(e).__name__
                if rec != good:
                    bad(dict(w, recovery=rec), 'the use after a failed open did not reconnect and return correct data'); continue
                relay.live = relay.delivered + 9               # the next reply is cut 9 bytes in, on the live connection
                e2, got = None, []
                try:
                    with via:
                        for v in via.read(tags):
                            got.append(canon(v))
                except Exception as e:
                    e2 = type(e).__name__
                relay.live = None
                w.update(second_error=e2, second_results=got)
                if got != good[:len(got)] or (e2 is None and len(got) != len(good)):
                    bad(w, 'proxy.read yielded wrong or silently fewer results under a cut connection'); continue
                if e2 is not None and via.gateway is not None:
                    bad(w, 'after a failed read on a recovered gateway the proxy did not discard its connection'); continue
                try:
                    with via:
                        again = [canon(v) for v in via.read(tags)]
                except Exception as e:
                    again = type(e).__name__
                if again != good:
                    bad(dict(w, next_use=again), 'the use after the second failure did not reconnect and return correct data')
                else:
                    nnontriv += 1
            finally:
                relay.live = None
                via.close_gateway()
        # ---- poll.run on top of the proxy: a good poll, then the device changes and the next poll's replies are cut: the values of the
        # good poll must not be handed to the consumer again as if they were the failed poll's; the poll after that reconnects and is right
        from cpppo.server.enip import poll as P
        for cut_after in ((5, 9, 24 + 30, -9) if not ctx.thorough else (0, 5, 9, 24, 24 + 30, 60, 100, -9, -30)):
            # (negative: the two connections the proxy opens next are cut as well - three failed polls in a row, each to be reported)
            more_faults, cut_after = (2, -cut_after) if cut_after < 0 else (0, cut_after)
            relay.live, relay.limit, relay.mode = None, None, 'cut'
            with client.connector(host='127.0.0.1', port=port, timeout=3) as c0:
                list(c0.operate(list(client.parse_operations(['SCADA[1]=(INT)1001', 'D[3]=(DINT)70003', 'SCADA[50-52]=(INT)1050,1051,1052'])), depth=0, timeout=3))
            via = proxy(host='127.0.0.1', port=relay.port, timeout=1.0, depth=2)
            seen, fails, polls = [], [], [0]

            def process(par, val, seen=seen, polls=polls, fails=fails):
                seen.append((len(fails), par, canon(val)))
                if len([x for x in seen if x[0] == len(fails)]) == len(tags):
                    polls[0] += 1
                    if polls[0] == 1:
                        # the device changes, and the next poll's replies will be cut
                        with client.connector(host='127.0.0.1', port=port, timeout=3) as c1:
                            list(c1.operate(list(client.parse_operations(['SCADA[1]=(INT)2001', 'D[3]=(DINT)80003', 'SCADA[50-52]=(INT)2050,2051,2052'])), depth=0, timeout=3))
                        relay.live = relay.delivered + cut_after
                        relay.faulty = more_faults
                    elif fails:
                        process.done = True

            def failure(exc, fails=fails):
                fails.append(type(exc).__name__)
                relay.live = None
                if len(fails) > 3:
                    process.done = True
            wd = threading.Thread(target=lambda: (time.sleep(25), setattr(process, 'done', True)), daemon=True)
            wd.start()
            try:
                P.run(via, process, failure=failure, cycle=0.05, backoff_min=0.05, latency=0.02, params=tags)
            except Exception as e:
                fails.append('run raised %s' % type(e).__name__)
            finally:
                relay.live = None
                via.close_gateway()
            ncut += 1
            new = [[2001], [80003], [2050, 2051, 2052]]
            w = dict(api='poll.run', cut_bytes_into_second_poll=cut_after, failures=fails, delivered_to_consumer=seen)
            stale = [x for x in seen if x[0] >= 1 and x[2] in good and x[2] not in new]
            w['consecutive_faulted_polls'] = 1 + more_faults
            relay.faulty = 0
            if not fails:
                bad(w, 'poll.run reported no failure although the second poll was cut')
            elif len(fails) < 1 + more_faults:
                bad(w, 'poll.run reported %d failures for %d consecutive polls that failed' % (len(fails), 1 + more_faults))
            elif stale:
                bad(w, 'after a failed poll the consumer was handed the previous poll\'s values again (the device holds different ones)')
            elif [x[2] for x in seen if x[0] == len(fails)][-len(tags):] != new:
                bad(w, 'the poll after the failure did not reconnect and deliver the device\'s current values')
            else:
                nnontriv += 1
        with client.connector(host='127.0.0.1', port=port, timeout=3) as c0:
            list(c0.operate(list(client.parse_operations(['SCADA[1]=(INT)1001', 'D[3]=(DINT)70003', 'SCADA[50-52]=(INT)1050,1051,1052'])), depth=0, timeout=3))
        # ---- a bare proxy.list_identity() on an established gateway, its reply cut at every k-th offset: must raise, discard, reconnect
        relay.limit = None
        via = proxy(host='127.0.0.1', port=relay.port, timeout=1.0, depth=2)
        try:
            ident = via.list_identity()
            base_len = relay.delivered             # register reply + the gateway's own List Identity reply + ours
            name = str(ident.product_name)
        finally:
            via.close_gateway()
        ident_len = (base_len - 28) // 2
        for off in sorted(set(range(0, ident_len, 1 if ctx.thorough else 11)) | {1, 24, ident_len - 1}):
            relay.limit, relay.mode = 28 + ident_len + off, 'cut'
            via = proxy(host='127.0.0.1', port=relay.port, timeout=1.0, depth=2)
            err = None
            try:
                with via:
                    pass                            # gateway established (its own List Identity passes)
                try:
                    via.list_identity()
                except Exception as e:
                    err = type(e).__name__
                ncut += 1
                w = dict(api='proxy.list_identity', delivered_bytes=relay.limit, error=err)
                if err is None:
                    bad(w, 'proxy.list_identity returned although its reply was cut'); continue
                if via.gateway is not None:
                    bad(w, 'after a failed list_identity the proxy did not discard its connection'); continue
                relay.limit = None
                try:
                    again = str(via.list_identity().product_name)
                except Exception as e:
                    again = type(e).__name__
                if again != name:
                    bad(dict(w, next_use=again), 'the use after a failed list_identity did not reconnect and return correct data')
                else:
                    nnontriv += 1
            finally:
                via.close_gateway()
    finally:
        relay.close()
        proc.terminate()
        try:
            proc.wait(5)
        except Exception:
            proc.kill()
    cov['evaluations'] = ncut
    cov['distinct_nontrivial'] = nnontriv
    cov['exhaustive'] = bool(ctx.thorough)
    cov['rule'] = ('server->client stream of a 6-operation exchange (Register reply + replies, ~%s bytes) cut after N delivered bytes for N = every frame boundary, '
                   'boundary+-1/+2/+24 and %s offset (cut; and silent at the boundaries), for connector.pipeline (depth 3, unbundled and bundled) and connector.operate '
                   '(synchronous); proxy.read (register + list identity + 3 reads) cut at %s offset, each followed by an un-faulted use; %d faulted runs'
                   % ('300', 'every' if ctx.thorough else 'every 9th', 'every' if ctx.thorough else 'every 13th', ncut))
    cov['impl_model_disagreements'] = ndis
    cov['impl_property_failures'] = nbad
    if ndis and not nbad:
        ctx.unresolved('correspondence connector results under a cut stream = Model.Framing + Model.Harvest', first)
    elif ndis:
        ctx.broken.append('correspondence connector results under a cut stream = Model.Framing + Model.Harvest')
        ctx.notes.append(repr(first)[:1500])
    ctx.sample(dict(tags=TAGS))
    ctx.assumptions += ['faults are injected by a relay on real sockets (cut = both directions closed after N server->client bytes; mute = silence); cuts in the client->server '
                        'direction and kernel-level resets are not injected', 'client timeout 1 s; the relay and the simulator run on localhost']


def replay(ctx, rep):
    print(rep.get('what'), rep.get('witness'))
    return 1
