open Model
let table : (string * (z list -> z list)) list = [
  ("plc", run_plc);
  ("logix", run_logix);
  ("tnet", run_tnet);
  ("route", run_route);
  ("dotdict", run_dotdict);
  ("codec", run_codec);
  ("engine", run_engine);
  ("regex", run_regex);
  ("source", run_source);
  ("framing", run_framing);
  ("times", run_times);
  ("history", run_history);
  ("session", run_session);
  ("client", run_client);
  ("concurrent", run_concurrent);
  ("connected", run_connected);
]
