(* Generic driver: one case per line "<name> i1 i2 ...", one result line "o1 o2 ...".
   No logic besides decimal text <-> extracted Z and dispatch by name. *)
open Model

let z0 = Z0
let z_of_digit c = match Char.code c - 48 with
  | 0 -> Z0 | 1 -> Zpos XH | 2 -> Zpos (XO XH) | 3 -> Zpos (XI XH) | 4 -> Zpos (XO (XO XH))
  | 5 -> Zpos (XI (XO XH)) | 6 -> Zpos (XO (XI XH)) | 7 -> Zpos (XI (XI XH))
  | 8 -> Zpos (XO (XO (XO XH))) | 9 -> Zpos (XI (XO (XO XH))) | _ -> failwith "digit"

let z_of_string s =
  let neg = String.length s > 0 && s.[0] = '-' in
  let acc = ref Z0 in
  String.iteri (fun i c -> if i = 0 && neg then () else
    acc := Z.add (Z.mul !acc z_ten) (z_of_digit c)) s;
  if neg then Z.opp !acc else !acc

(* fast path for small numbers: build positive from OCaml int *)
let rec pos_of_int n = if n = 1 then XH else if n land 1 = 0 then XO (pos_of_int (n lsr 1)) else XI (pos_of_int (n lsr 1))
let z_of_token s =
  if String.length s <= 17 then
    let n = int_of_string s in
    if n = 0 then Z0 else if n > 0 then Zpos (pos_of_int n) else Zneg (pos_of_int (-n))
  else z_of_string s

let rec int_of_pos = function XH -> 1 | XO p -> 2 * int_of_pos p | XI p -> 2 * int_of_pos p + 1
let rec pos_bits = function XH -> 1 | XO p | XI p -> 1 + pos_bits p

let rec string_of_zpos z = (* z > 0, arbitrary size *)
  let (q, r) = Z.div_eucl z z_ten in
  let d = match r with Z0 -> 0 | Zpos p -> int_of_pos p | Zneg _ -> failwith "neg" in
  (match q with Z0 -> "" | _ -> string_of_zpos q) ^ string_of_int d

let string_of_z = function
  | Z0 -> "0"
  | Zpos p -> if pos_bits p <= 60 then string_of_int (int_of_pos p) else string_of_zpos (Zpos p)
  | Zneg p -> if pos_bits p <= 60 then string_of_int (- (int_of_pos p)) else "-" ^ string_of_zpos (Zpos p)

let table : (string * (z list -> z list)) list = Dispatch.table

let () =
  let buf = Buffer.create 65536 in
  (try
    while true do
      let line = input_line stdin in
      let toks = String.split_on_char ' ' line |> List.filter (fun s -> s <> "") in
      (match toks with
       | [] -> print_newline ()
       | name :: args ->
         let f = try List.assoc name table with Not_found -> failwith ("unknown model " ^ name) in
         let out = f (List.map z_of_token args) in
         Buffer.clear buf;
         List.iteri (fun i z -> if i > 0 then Buffer.add_char buf ' '; Buffer.add_string buf (string_of_z z)) out;
         print_string (Buffer.contents buf); print_newline ())
    done
  with End_of_file -> ())
